#!/bin/bash
# tools_seed_batch.sh <listfile>: lines "<srcdir> <label> <check ids...>" -> tools_seed.sh without the test-suite (run tools_seed_tests.sh afterwards)
while read -r SRC LABEL CHECKS; do
  [ -z "$SRC" ] && continue
  case "$SRC" in \#*) continue;; esac
  SEED_SRC=$SRC SKIP_TESTS=1 /verif/tools_seed.sh X "$LABEL" $CHECKS 2>&1 | grep -v "^$" | tail -6
  [ -n "$(git -C /repo status --short)" ] && { echo "REPO DIRTY after $LABEL"; git -C /repo checkout -- .; }
done < "$1"
