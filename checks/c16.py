"""C16 -- error metrics are consistent quadratures of the documented norms.

Symbolic state pairs (u, v), symbolic L, C in {1,2}.  abs of complex numbers
and square roots are Ackermannised with their defining facts (s >= 0,
s^2 = x).  The absolute 1e-5 floor of the Fourier variants is the ite the
code contains; the stated precondition is that no non-zero coefficient lies
below it.
"""
from __future__ import annotations

from fractions import Fraction

import numpy as np
import z3

import exponax as ex
import jax.numpy as jnp

from checks.c05 import sample, trig_field
from vlib import oracle as orc
from vlib import sym
from vlib.eqinst import Encoded, In
from vlib.sym import Cx, ONE, ZERO

M = ex.metrics


def build(ck):
    ck.encode_fn(M.spatial_aggregator, M.spatial_norm, M.fourier_aggregator, M.fourier_norm, M.MSE, M.nMSE, M.sMSE, M.RMSE, M.nRMSE, M.sRMSE, M.MAE, M.nMAE, M.sMAE, M.fourier_MSE, M.fourier_nMSE,
                 M.fourier_RMSE, M.fourier_nRMSE, M.H1_MSE, M.correlation)
    thorough = ck.tier == "thorough"
    grids = [(1, 4), (1, 5)] + ([(1, 6), (2, 3), (2, 4)] if thorough else [])
    ck.bound("grids (D,N): " + ", ".join(map(str, grids)) + "; C in {1,2}; L symbolic; correlation bound: <= 4 grid points per channel (Cauchy-Schwarz as an NRA query)")
    ck.assume("real arithmetic; sqrt / complex abs Ackermannised with s>=0, s^2=x; Fourier variants: every Fourier coefficient of the compared difference / reference field has magnitude at least the absolute 1e-5 floor (generic case of 'no non-zero coefficient below the floor'; exact zeros are covered by the identical-inputs obligation)")
    only = getattr(ck, "only", None)
    want = lambda t: (not only) or only in t
    for D, N in grids:
        if want(f"parseval/D{D}N{N}"):
            _parseval(ck, D, N)
        if want(f"axioms/D{D}N{N}"):
            _axioms(ck, D, N)
        if want(f"bands/D{D}N{N}"):
            _bands(ck, D, N)
    if not thorough and want("bands/D2N3"):
        # band masks are max-norm shells in D >= 2: a per-axis mask loses the modes that straddle two shells
        _bands(ck, 2, 3)
    if want("h1"):
        _h1(ck, 1, 6)
        _h1_bands(ck, 1, 6)
        if thorough:
            _h1_bands(ck, 2, 4)
    if want("correlation"):
        _correlation(ck)
    if want("resolution"):
        _resolution(ck, 1, 5, 6)
        if thorough:
            _resolution(ck, 1, 6, 8)


def _floor_pre(interp):
    """no non-zero coefficient below the floor: for every Ackermannised |c| either c = 0 or |c| >= 1e-5"""
    pre = []
    for x, s in interp.sqrt_facts:
        X = sym.zr(x)
        # generic case of the stated precondition: every coefficient magnitude is at least the floor
        # (Fraction(1e-5) is the float literal the code compares with); exact zeros are covered by the
        # 'identical inputs' obligation.  Allowing "zero or above" per mode makes nlsat split 2^modes cases.
        pre.append(s >= sym.qv(Fraction(1e-5)))
    return pre


def _parseval(ck, D, N):
    for C in (1, 2):
        if C == 2 and N**D > 4 and ck.tier != "thorough":
            continue
        ins = [In("L", (), lo=0.5, hi=2.0), In("u", (C,) + (N,) * D), In("v", (C,) + (N,) * D)]

        def f(L, u, v):
            z = jnp.zeros_like(v)
            return (M.MSE(u, v, domain_extent=L), M.fourier_MSE(u, v, domain_extent=L), M.RMSE(u, v, domain_extent=L), M.fourier_RMSE(u, v, domain_extent=L),
                    M.nMSE(u, v, domain_extent=L), M.fourier_nMSE(u, v, domain_extent=L), M.MSE(v, z, domain_extent=L), M.fourier_MSE(v, z, domain_extent=L))

        enc = Encoded(f, ins, tag="pv")
        enc.validate(ck, what=f"parseval/D{D}N{N}/C{C}")
        L = ins[0].s
        pre = [L > 0] + enc.interp.sound_facts() + _floor_pre(enc.interp)
        o = [x[()] for x in enc.outs]
        tag = f"parseval/D{D}N{N}/C{C}"
        rp = _metric_replay(D, N, C)
        mse_eq = sym.equal_goal(o[0], o[1])
        ref_eq = sym.equal_goal(o[6], o[7])
        lem = [g for g in (mse_eq, ref_eq) if not isinstance(g, bool)]
        ck.add(f"{tag}/MSE", mse_eq, pre, family="Parseval: MSE = fourier_MSE", timeout=300, replay=rp)
        ck.add(f"{tag}/MSE-of-reference", ref_eq, pre, family="Parseval: MSE = fourier_MSE", timeout=300, replay=rp)
        # staged: the two obligations above are lemmas for the root and the normalised variants (same radicands / same quotient)
        rad = []
        for root, base in ((o[2], o[0]), (o[3], o[1])):  # RMSE is the Ackermannised root of a radicand: radicand = MSE is a separate (polynomial) obligation
            r_ = sym.zr(root) if not isinstance(root, (int, float)) else None
            ent = sym._SQRT_OF.get(r_.get_id()) if r_ is not None and z3.is_expr(r_) else None
            if ent is not None:
                g_ = sym.rcmp("eq", ent[1], base)
                ck.add(f"{tag}/RMSE/radicand-{len(rad)}", g_, pre, family="Parseval: RMSE radicand is the MSE", timeout=300, replay=rp)
                if not isinstance(g_, bool):
                    rad.append(g_)
        ck.add(f"{tag}/RMSE", sym.equal_goal(o[2], o[3]), pre + lem + rad, family="Parseval: RMSE = fourier_RMSE (given the MSE lemma)", timeout=300, stretch=(C == 2 or N**D > 4), replay=rp)  # N = 5: the radicand obligations above are decided; the last step (equal radicands, non-negative roots) is thorough-only
        # normalised variant: reference norm must be non-zero
        v = ins[2].sym
        nz = [z3.Or(*[v[(c,) + i] != 0 for i in np.ndindex((N,) * D)]) for c in range(C)]
        ck.add(f"{tag}/nMSE", sym.equal_goal(o[4], o[5]), pre + nz + lem, family="Parseval: nMSE = fourier_nMSE (given the MSE lemmas)", timeout=300, stretch=(C == 2), replay=rp)
        # L^D scaling of the absolute metric
        sc = z3.Real("sc")
        enc1 = Encoded(lambda L, s_, u, v: M.MSE(u, v, domain_extent=s_ * L), [ins[0], In("sc", (), lo=0.5, hi=2.0)] + ins[1:], tag="pv1")
        ck.add(f"{tag}/L^D-scaling", sym.equal_goal(enc1.outs[0][()], sym.rmul(sym.rpow_int(sc, D), o[0])), [L > 0, sc > 0], family="MSE scales with L^D", replay=rp)
        if C == 2:
            encc = Encoded(lambda L, u, v: M.MSE(u[0:1], v[0:1], domain_extent=L) + M.MSE(u[1:2], v[1:2], domain_extent=L), ins, tag="pvc")
            ck.add(f"{tag}/channel-additivity", sym.equal_goal(o[0], encc.outs[0][()]), [L > 0], family="metrics add over channels", replay=rp)
            # the root metrics are documented as sums over channels of per-channel roots (same program, same Ackermannised roots)
            encr = Encoded(lambda L, u, v: (M.RMSE(u, v, domain_extent=L), M.RMSE(u[0:1], v[0:1], domain_extent=L) + M.RMSE(u[1:2], v[1:2], domain_extent=L),
                                            M.MAE(u, v, domain_extent=L), M.MAE(u[0:1], v[0:1], domain_extent=L) + M.MAE(u[1:2], v[1:2], domain_extent=L)), ins, tag="pvr")

            def rp_r(model):
                rng = np.random.default_rng(5)
                u_ = jnp.asarray(rng.normal(size=(2,) + (N,) * D))
                v_ = jnp.asarray(rng.normal(size=(2,) + (N,) * D))
                a_ = float(M.RMSE(u_, v_, domain_extent=1.3))
                b_ = float(M.RMSE(u_[0:1], v_[0:1], domain_extent=1.3) + M.RMSE(u_[1:2], v_[1:2], domain_extent=1.3))
                return {"reproduced": abs(a_ - b_) > 1e-9, "detail": f"RMSE of a 2-channel pair {a_!r} vs sum of the per-channel RMSEs {b_!r}"}

            ck.add(f"{tag}/channel-additivity-RMSE", sym.equal_goal(encr.outs[0][()], encr.outs[1][()]), [L > 0] + encr.interp.sound_facts(), family="metrics add over channels", timeout=120, replay=rp_r)
            ck.add(f"{tag}/channel-additivity-MAE", sym.equal_goal(encr.outs[2][()], encr.outs[3][()]), [L > 0] + encr.interp.sound_facts(), family="metrics add over channels", timeout=120, replay=rp_r)
        if C == 1:
            # reachability twin on a thin slice (one non-zero sample): MSE = 2 fourier_MSE is refutable, i.e. the harness reaches the comparison
            u, vv = ins[1].sym, ins[2].sym
            thin = [u[i] == (1 if not any(i) else 0) for i in np.ndindex(u.shape)] + [vv[i] == (2 if not any(i) else 0) for i in np.ndindex(vv.shape)] + [L == 1]
            ck.add(f"parseval/D{D}N{N}/twin", sym.equal_goal(o[0], sym.rmul(orc.fl(2), o[1])), pre + thin, family="C16/twin", expect="sat", timeout=300)


def _metric_replay(D, N, C):
    def replay(model):
        rng = np.random.default_rng(0)
        u = jnp.asarray(rng.normal(size=(C,) + (N,) * D))
        v = jnp.asarray(rng.normal(size=(C,) + (N,) * D))
        L = 1.7
        e = [abs(float(M.MSE(u, v, domain_extent=L) - M.fourier_MSE(u, v, domain_extent=L))), abs(float(M.RMSE(u, v, domain_extent=L) - M.fourier_RMSE(u, v, domain_extent=L))),
             abs(float(M.nMSE(u, v, domain_extent=L) - M.fourier_nMSE(u, v, domain_extent=L))), abs(float(M.MSE(u, v, domain_extent=L) - L**D * M.MSE(u, v, domain_extent=1.0)))]
        return {"reproduced": max(e) > 1e-9, "detail": f"spatial vs Fourier metric differences on a random pair: {e}"}

    return replay


def _axioms(ck, D, N):
    C = 1
    lam = z3.Real("lam")
    ins = [In("L", (), lo=0.5, hi=2.0), In("lam", (), lo=0.5, hi=2.0), In("u", (C,) + (N,) * D), In("v", (C,) + (N,) * D)]

    def f(L, lam, u, v):
        return (M.MSE(u, v, domain_extent=L), M.MSE(v, u, domain_extent=L), M.MSE(lam * u, lam * v, domain_extent=L), M.RMSE(u, v, domain_extent=L), M.RMSE(lam * u, lam * v, domain_extent=L),
                M.MSE(u, u, domain_extent=L), M.sMSE(u, v, domain_extent=L), M.sMSE(v, u, domain_extent=L), M.nMSE(u, v, domain_extent=L), M.nMSE(lam * u, lam * v, domain_extent=L),
                M.MAE(u, v, domain_extent=L), M.MAE(lam * u, lam * v, domain_extent=L), M.MAE(v, u, domain_extent=L))

    enc = Encoded(f, ins, tag="ax")
    enc.validate(ck, what=f"axioms/D{D}N{N}")
    L, lm = ins[0].s, ins[1].s
    u, v = ins[2].sym, ins[3].sym
    o = [x[()] for x in enc.outs]
    pre = [L > 0] + enc.interp.sound_facts()
    tag = f"axioms/D{D}N{N}"
    ck.add(f"{tag}/MSE-symmetric", sym.equal_goal(o[0], o[1]), pre, family="metric axioms: symmetry")
    ck.add(f"{tag}/MAE-symmetric", sym.equal_goal(o[10], o[12]), pre, family="metric axioms: symmetry")
    ck.add(f"{tag}/sMSE-symmetric", sym.equal_goal(o[6], o[7]), pre + [z3.Or(*[u[i] != 0 for i in np.ndindex(u.shape)]), z3.Or(*[v[i] != 0 for i in np.ndindex(v.shape)])], family="metric axioms: symmetry", timeout=120)
    ck.add(f"{tag}/MSE-homogeneous", sym.equal_goal(o[2], sym.rmul(sym.rmul(lm, lm), o[0])), pre, family="metric axioms: homogeneity |lambda|^p")
    ck.add(f"{tag}/RMSE-homogeneous", sym.equal_goal(o[4], sym.rmul(sym.rabs(lm), o[3])), pre, family="metric axioms: homogeneity |lambda|^p", timeout=120)
    ck.add(f"{tag}/MAE-homogeneous", sym.equal_goal(o[11], sym.rmul(sym.rabs(lm), o[10])), pre, family="metric axioms: homogeneity |lambda|^p", timeout=120)
    ck.add(f"{tag}/identical-inputs", sym.equal_goal(o[5], ZERO), pre, family="metric axioms: zero for identical inputs")
    diff = z3.Or(*[u[i] != v[i] for i in np.ndindex(u.shape)])
    ck.add(f"{tag}/positive", sym.rcmp("gt", o[0], ZERO), pre + [diff], family="metric axioms: positive otherwise", timeout=120)
    nz = [z3.Or(*[v[i] != 0 for i in np.ndindex(v.shape)]), lm != 0]
    ck.add(f"{tag}/nMSE-scale-free", sym.equal_goal(o[9], o[8]), pre + nz, family="metric axioms: normalized variants are scale free", timeout=120)
    ck.add(f"{tag}/twin", sym.equal_goal(o[2], sym.rmul(lm, o[0])), pre + [diff], family="C16/twin", expect="sat")


def _bands(ck, D, N):
    C = 1
    ins = [In("L", (), lo=0.5, hi=2.0), In("u", (C,) + (N,) * D), In("v", (C,) + (N,) * D)]
    top = N // 2 + 1
    cuts = [0, 1, top] if top > 1 else [0, top]

    def f(L, u, v):
        full = M.fourier_MSE(u, v, domain_extent=L)
        parts = [M.fourier_MSE(u, v, domain_extent=L, low=0, high=0)]
        for a, b in zip(cuts[:-1], cuts[1:]):
            parts.append(M.fourier_MSE(u, v, domain_extent=L, low=a + 1, high=b))
        # the same partition with open ends: [.., 1] (low omitted) and [2, ..] (high omitted)
        open_ends = M.fourier_MSE(u, v, domain_extent=L, high=1) + (M.fourier_MSE(u, v, domain_extent=L, low=2) if top > 1 else 0.0)
        return full, sum(parts), open_ends

    enc = Encoded(f, ins, tag="bd")
    enc.validate(ck, what=f"bands/D{D}N{N}")
    pre = [ins[0].s > 0] + enc.interp.sound_facts() + _floor_pre(enc.interp)
    def replay(model):
        rng = np.random.default_rng(1)
        u = jnp.asarray(rng.normal(size=(C,) + (N,) * D))
        v = jnp.asarray(rng.normal(size=(C,) + (N,) * D))
        full, parts, _ = f(1.3, u, v)
        return {"reproduced": abs(float(full) - float(parts)) > 1e-9 * max(1.0, abs(float(full))), "detail": f"fourier_MSE full spectrum {float(full)!r} vs sum over the band partition {float(parts)!r} on a random pair"}

    ck.add(f"bands/D{D}N{N}/partition", sym.equal_goal(enc.outs[0][()], enc.outs[1][()]), pre, family="Fourier metric is additive over a full band partition", timeout=300, replay=replay)

    def replay_open(model):
        rng = np.random.default_rng(1)
        u = jnp.asarray(rng.normal(size=(C,) + (N,) * D))
        v = jnp.asarray(rng.normal(size=(C,) + (N,) * D))
        full, _, op = f(1.3, u, v)
        return {"reproduced": abs(float(full) - float(op)) > 1e-9 * max(1.0, abs(float(full))), "detail": f"fourier_MSE full spectrum {float(full)!r} vs band [..,1] + band [2,..] with the open ends omitted {float(op)!r} on a random pair"}

    ck.add(f"bands/D{D}N{N}/open-ended-partition", sym.equal_goal(enc.outs[0][()], enc.outs[2][()]), pre, family="Fourier metric is additive over a full band partition", timeout=300, replay=replay_open)


def _h1(ck, D, N):
    fld_u, cu = trig_field(D, N, 1, prefix="a")
    fld_v, cv = trig_field(D, N, 1, prefix="b")
    ins = [In("L", (), lo=0.5, hi=2.0), In("u", (1,) + (N,) * D, sym_arr=fld_u), In("v", (1,) + (N,) * D, sym_arr=fld_v)]

    def f(L, u, v):
        g = ex.derivative(u, L)  # (D, N..) for one channel
        h = ex.derivative(v, L)
        return M.H1_MSE(u, v, domain_extent=L), M.MSE(u, v, domain_extent=L) + M.MSE(g, h, domain_extent=L)

    enc = Encoded(f, ins, tag="h1")
    enc.validate(ck, what="h1")
    pre = [ins[0].s > 0] + enc.interp.sound_facts() + _floor_pre(enc.interp)
    ck.add(f"h1/D{D}N{N}/H1_MSE=MSE+gradient-MSE", sym.equal_goal(enc.outs[0][()], enc.outs[1][()]), pre, family="Sobolev metric = value term + gradient term (Nyquist-free states)", timeout=300)


def _h1_bands(ck, D, N):
    """every Sobolev metric, with and without a frequency band, is the plain Fourier metric plus the Fourier metric of the
    first spectral derivative ON THE SAME BAND (the value term and the gradient term are themselves tied to the spatial
    metrics by the Parseval and H1_MSE obligations)"""
    ins = [In("L", (), lo=0.5, hi=2.0), In("u", (1,) + (N,) * D), In("v", (1,) + (N,) * D)]
    pairs = [("MAE", M.H1_MAE, M.fourier_MAE), ("nMAE", M.H1_nMAE, M.fourier_nMAE), ("MSE", M.H1_MSE, M.fourier_MSE), ("nMSE", M.H1_nMSE, M.fourier_nMSE), ("RMSE", M.H1_RMSE, M.fourier_RMSE), ("nRMSE", M.H1_nRMSE, M.fourier_nRMSE)]
    bands = [(None, None), (2, 2), (1, 2), (2, N // 2)]
    for nm, h1, plain in pairs:
        for low, high in bands:
            def f(L, u, v, h1=h1, plain=plain, low=low, high=high):
                return h1(u, v, domain_extent=L, low=low, high=high), plain(u, v, domain_extent=L, low=low, high=high) + plain(u, v, domain_extent=L, low=low, high=high, derivative_order=1)

            enc = Encoded(f, ins, tag=f"hb{nm}{low}{high}")

            def replay(model, f=f, nm=nm, low=low, high=high):
                rng = np.random.default_rng(3)
                u = jnp.asarray(rng.normal(size=(1,) + (N,) * D))
                v = jnp.asarray(rng.normal(size=(1,) + (N,) * D))
                a, b = f(1.3, u, v)
                return {"reproduced": abs(float(a) - float(b)) > 1e-9 * max(1.0, abs(float(b))), "detail": f"H1_{nm}(low={low}, high={high}) = {float(a)!r}, value term + gradient term on the same band = {float(b)!r} (random pair, D={D}, N={N}, L=1.3)"}

            ck.add(f"h1/D{D}N{N}/H1_{nm}/band={low}-{high}", sym.equal_goal(enc.outs[0][()], enc.outs[1][()]), [ins[0].s > 0] + enc.interp.sound_facts(), family="Sobolev metric = value term + gradient term on the same band", timeout=120, replay=replay)


def _correlation(ck):
    for npts in (2, 3, 4):
        ins = [In("u", (1, npts)), In("v", (1, npts))]
        enc = Encoded(lambda u, v: M.correlation(u, v), ins, tag="co")
        u, v = ins[0].sym, ins[1].sym
        c = enc.outs[0][()]
        nz = [z3.Or(*[u[0, i] != 0 for i in range(npts)]), z3.Or(*[v[0, i] != 0 for i in range(npts)])]
        pre = enc.interp.sound_facts() + nz
        ck.add(f"correlation/n{npts}/upper", sym.rcmp("le", c, ONE), pre, family="correlation in [-1, 1]", timeout=300, stretch=(npts == 4 and ck.tier != "thorough"))
        ck.add(f"correlation/n{npts}/lower", sym.rcmp("ge", c, orc.fl(-1)), pre, family="correlation in [-1, 1]", timeout=300, stretch=(npts == 4 and ck.tier != "thorough"))
        lam = z3.Real("lam")
        prop = [v[0, i] == lam * u[0, i] for i in range(npts)]
        ck.add(f"correlation/n{npts}/positively-proportional", sym.equal_goal(c, ONE), pre + prop + [lam > 0], family="correlation = +-1 for proportional fields", timeout=300)
        ck.add(f"correlation/n{npts}/negatively-proportional", sym.equal_goal(c, orc.fl(-1)), pre + prop + [lam < 0], family="correlation = +-1 for proportional fields", timeout=300)
    ck.add("correlation/twin", sym.equal_goal(c, ONE), pre, family="C16/twin", expect="sat")


def _resolution(ck, D, N1, N2):
    K = (min(N1, N2) - 1) // 2
    _, cu = trig_field(D, N1, 1, prefix="a")
    _, cv = trig_field(D, N1, 1, prefix="b")
    two_u = {m: c for m, c in cu[0].items() if max(abs(x) for x in m) <= K}
    two_v = {m: c for m, c in cv[0].items() if max(abs(x) for x in m) <= K}
    ins = [In("L", (), lo=0.5, hi=2.0), In("u1", (1,) + (N1,) * D, sym_arr=sample(two_u, D, N1)[None]), In("v1", (1,) + (N1,) * D, sym_arr=sample(two_v, D, N1)[None]),
           In("u2", (1,) + (N2,) * D, sym_arr=sample(two_u, D, N2)[None]), In("v2", (1,) + (N2,) * D, sym_arr=sample(two_v, D, N2)[None])]
    enc = Encoded(lambda L, u1, v1, u2, v2: (M.MSE(u1, v1, domain_extent=L), M.MSE(u2, v2, domain_extent=L)), ins, tag="rs")
    ck.add(f"resolution/D{D}/{N1}vs{N2}", sym.equal_goal(enc.outs[0][()], enc.outs[1][()]), [ins[0].s > 0], family="metric of a band-limited pair does not depend on the sampling resolution", timeout=300)
