"""C10 -- incompressibility is enforced and preserved.

(1) Leray projection per stored mode, L and the whole vector spectrum symbolic:
    k.P(u)=0, P(P u)=P u, k.u=0 => P u = u.
(2) make_incompressible (physical space) equals ifft(Leray(fft(u))) for every
    symbolic real field, and its result has zero spectral divergence.
(3) k.N_k = 0 for ProjectedConvection3d (+Kolmogorov) for every (real-field)
    input: decided on the real dataflow with a symbolic Hermitian spectrum.
(4) one ETDRK step of any order with an opaque nonlinear term satisfying
    k.N=0 and a channel-independent linear multiplier maps div u to E*div u
    (so divergence-free states stay divergence-free for any number of steps);
    the real 3D steppers' multipliers are channel-independent (static).
"""
from __future__ import annotations

import numpy as np
import z3

import exponax as ex
import jax.numpy as jnp

from vlib import oracle as orc
from vlib import sym
from vlib.eqinst import Encoded, In
from vlib.jx2smt import hermitian_spectrum, symarray
from vlib.modular import Step, amap
from vlib.sym import Cx, ONE, ZERO

NF = ex.nonlin_fun


def _do(L, D, N):
    return ex.spectral.build_derivative_operator(D, L, N)


def div_hat(arr, D, N, idx, W=None):
    """sum_d (i W m_d) arr[d, idx]  (W omitted: sum_d m_d arr[d])"""
    m = tuple(orc.wn_full(i, N) for i in idx[:-1]) + (idx[-1],)
    terms = []
    for d in range(D):
        v = sym.asc(arr[(d,) + idx])
        terms.append(sym.cmul(v, orc.ik_pow(W, m[d], 1)) if W is not None else sym.cscale(v, orc.fl(m[d])))
    return orc.csum(terms)


def build(ck):
    ck.encode_fn(NF.Leray, NF.ProjectedConvection3d, NF.ProjectedConvection3dKolmogorov, ex.spectral.make_incompressible, ex.stepper.NavierStokesVelocity, ex.stepper.KolmogorovFlowVelocity,
                 ex.etdrk.ETDRK1, ex.etdrk.ETDRK2, ex.etdrk.ETDRK3, ex.etdrk.ETDRK4)
    thorough = ck.tier == "thorough"
    grids = [(2, 4), (2, 5), (3, 3)] + ([(2, 6), (3, 4)] if thorough else [])
    ck.bound("Leray / make_incompressible grids (D,N): " + ", ".join(map(str, grids)) + "; 3D rotational convection N=6 (band-limited Hermitian spectrum, 81 reals); ETDRK orders 1-4 modular; L symbolic")
    ck.assume("real arithmetic; spectra are rffts of real fields for (3); the step-level claim uses the lemma k.N=0 (proved in (3)) as an assumption on the opaque nonlinear term")
    only = getattr(ck, "only", None)
    want = lambda t: (not only) or only in t
    for D, N in grids:
        if want(f"leray/D{D}N{N}"):
            _leray(ck, D, N)
        if want(f"mkinc/D{D}N{N}"):
            _make_incompressible(ck, D, N)
    if want("rotconv"):
        _rot_conv_div(ck, 6, kolmogorov=False)
        if thorough:
            _rot_conv_div(ck, 6, kolmogorov=True)
    if want("step"):
        for order in (1, 2, 3, 4):
            _step(ck, order)
        _multiplier_static(ck)


def _leray(ck, D, N):
    tag = f"leray/D{D}N{N}"
    spec = (D,) + orc.spectrum_shape(D, N)
    ins = [In("L", (), lo=0.5, hi=3.0), In("uh", spec, "complex")]

    def f(L, uh):
        P = NF.Leray(D, N, derivative_operator=_do(L, D, N))
        a = P(uh)
        return a, P(a)

    enc = Encoded(f, ins, tag="lr")
    enc.validate(ck, what=tag, max_components=8)
    L, uh = ins[0].s, ins[1].sym
    W = orc.two_pi_over(L)
    pre = [L > 0]
    for idx, m in orc.stored_modes(D, N):
        nm = "_".join(map(str, idx))
        d_out = div_hat(enc.outs[0], D, N, idx, W)
        ck.add(f"{tag}/div-free/{nm}", sym.equal_goal(d_out, Cx(ZERO, ZERO)), pre, family="Leray: k.P(u) = 0", replay=_leray_replay(D, N))
        for d in range(D):
            ck.add(f"{tag}/idempotent/{d}_{nm}", sym.equal_goal(enc.outs[1][(d,) + idx], enc.outs[0][(d,) + idx]), pre, family="Leray: P(P u) = P u", replay=_leray_replay(D, N))
        d_in = div_hat(uh, D, N, idx, None)
        asm = [g for g in (sym.rcmp("eq", d_in.re, ZERO), sym.rcmp("eq", d_in.im, ZERO)) if not isinstance(g, bool)]
        for d in range(D):
            ck.add(f"{tag}/identity-on-div-free/{d}_{nm}", sym.equal_goal(enc.outs[0][(d,) + idx], uh[(d,) + idx]), pre + asm, family="Leray: k.u=0 => P u = u", replay=_leray_replay(D, N))
    i0 = (0,) * (D - 1) + (1,)
    ck.add(f"{tag}/twin", sym.equal_goal(enc.outs[0][(D - 1,) + i0], uh[(D - 1,) + i0]), pre, family="Leray/twin", expect="sat")


def _leray_replay(D, N):
    def replay(model):
        rng = np.random.default_rng(1)
        L = 1.7
        do = _do(L, D, N)
        P = NF.Leray(D, N, derivative_operator=do)
        u = rng.normal(size=(D,) + (N,) * D)
        uh = ex.fft(jnp.asarray(u))
        a = P(uh)
        div = jnp.sum(do * a, axis=0)
        e1 = float(jnp.max(jnp.abs(div)))
        e2 = float(jnp.max(jnp.abs(P(a) - a)))
        return {"reproduced": max(e1, e2) > 1e-9, "detail": f"Leray on a random field: max|k.P(u)| = {e1:.3g}, max|P(Pu)-Pu| = {e2:.3g}"}

    return replay


def _make_incompressible(ck, D, N):
    tag = f"mkinc/D{D}N{N}"
    ins = [In("u", (D,) + (N,) * D)]

    def f(u):
        a = ex.spectral.make_incompressible(u)
        P = NF.Leray(D, N, derivative_operator=_do(1.0, D, N))
        b = ex.ifft(P(ex.fft(u)), num_spatial_dims=D, num_points=N)
        return a, b, ex.fft(a)

    enc = Encoded(f, ins, tag="mi")
    enc.validate(ck, what=tag, max_components=8)
    enc.compare(ck, f"{tag}/agrees-with-leray", 0, enc.outs[1], [], family="make_incompressible = ifft(Leray(fft u))")
    for idx, m in orc.stored_modes(D, N):
        if orc.is_nyquist(m, N):
            continue
        ck.add(f"{tag}/div-free/{'_'.join(map(str, idx))}", sym.equal_goal(div_hat(enc.outs[2], D, N, idx, None), Cx(ZERO, ZERO)), [], family="make_incompressible: zero spectral divergence below Nyquist")


def _rot_conv_div(ck, N, kolmogorov):
    D = 3
    from fractions import Fraction

    K = orc.retained_band(N, Fraction(2, 3))
    tag = f"rotconv/N{N}/kolmogorov={kolmogorov}"
    uh = hermitian_spectrum("u", N, D, 3, band=K)
    ins = [In("L", (), lo=0.5, hi=3.0), In("g", (), lo=0.5, hi=2.0), In("uh", uh.shape, "complex", sym_arr=uh)]

    def f(L, g, uh):
        if kolmogorov:
            nf = NF.ProjectedConvection3dKolmogorov(3, N, injection_mode=1, injection_scale=g, derivative_operator=_do(L, 3, N), dealiasing_fraction=2 / 3)
        else:
            nf = NF.ProjectedConvection3d(3, N, derivative_operator=_do(L, 3, N))
        return nf(uh)

    enc = Encoded(f, ins, tag="rc")
    enc.validate(ck, what=tag, max_components=6)
    L = ins[0].s
    n = 0
    for idx, m in orc.stored_modes(D, N):
        if max(abs(x) for x in m) > K:
            # outside the retained band the output is zero (C03); divergence trivially zero
            continue
        ck.add(f"{tag}/div/{'_'.join(map(str, idx))}", sym.equal_goal(div_hat(enc.outs[0], D, N, idx, None), Cx(ZERO, ZERO)), [L > 0], family="k.N_k = 0 for the 3D rotational convection", timeout=240,
               replay=_rot_replay(N, kolmogorov))
        n += 1
    idx = (1, 1, 1)
    ck.add(f"{tag}/twin", sym.equal_goal(enc.outs[0][(0,) + idx], Cx(ZERO, ZERO)), [L > 0], family="rotconv/twin", expect="sat", timeout=240)


def _rot_replay(N, kolmogorov):
    def replay(model):
        rng = np.random.default_rng(2)
        L = 1.3
        do = _do(L, 3, N)
        nf = NF.ProjectedConvection3dKolmogorov(3, N, injection_mode=1, injection_scale=0.7, derivative_operator=do, dealiasing_fraction=2 / 3) if kolmogorov else NF.ProjectedConvection3d(3, N, derivative_operator=do)
        uh = ex.fft(jnp.asarray(rng.normal(size=(3, N, N, N))))
        out = nf(uh)
        e = float(jnp.max(jnp.abs(jnp.sum(do * out, axis=0))))
        return {"reproduced": e > 1e-8, "detail": f"max |k.N_k| on a random field = {e:.3g}"}

    return replay


def _step(ck, order):
    """one mode with symbolic wavenumber vector kappa; multiplier shared by the channels"""
    st = Step(order, (3, 1), tag=f"d{order}")
    kap = [z3.Real(f"kappa{d}") for d in range(3)]
    dot = lambda arr: orc.csum([sym.cscale(sym.asc(arr[d, 0]), kap[d]) for d in range(3)])
    lemma = []
    for n_out in st.n_outs():
        d = dot(n_out)
        lemma += [d.re == 0, d.im == 0]
    lhs = dot(st.out)
    rhs = sym.cmul(sym.asc(st.P["_exp_term"][0, 0]), dot(st.uh))
    ck.add(f"step/order{order}/divergence-transport", sym.equal_goal(lhs, rhs), lemma, family="ETDRK step: div(out) = E div(u) when k.N = 0", replay=_step_replay(order))
    ck.add(f"step/order{order}/twin", sym.equal_goal(lhs, rhs), [], family="step/twin", expect="sat")


def _step_replay(order):
    def replay(model):
        rng = np.random.default_rng(3)
        N, L = 8, 2.0
        s = ex.stepper.NavierStokesVelocity(3, L, N, 0.05, order=order)
        u = ex.spectral.make_incompressible(jnp.asarray(rng.normal(size=(3, N, N, N))))
        u = ex.map_between_resolutions(ex.map_between_resolutions(u, N - 1), N)  # drop Nyquist
        u = ex.spectral.make_incompressible(u)
        v = s(u)
        do = _do(L, 3, N)
        e = float(jnp.max(jnp.abs(jnp.sum(do * ex.fft(v), axis=0))))
        return {"reproduced": e > 1e-6, "detail": f"NavierStokesVelocity(order={order}) on a divergence-free state: max |k.u_hat| after one step = {e:.3g}"}

    return replay


def _multiplier_static(ck):
    for nm, mk in [("NavierStokesVelocity", lambda o: ex.stepper.NavierStokesVelocity(3, 1.0, 6, 0.1, order=o)), ("KolmogorovFlowVelocity", lambda o: ex.stepper.KolmogorovFlowVelocity(3, 1.0, 6, 0.1, order=o))]:
        for o in (1, 2, 3, 4):
            s = mk(o)
            shapes = {n: tuple(getattr(s._integrator, n).shape) for n in vars(s._integrator) if n.startswith("_coef") or n.endswith("exp_term")}
            ok = all(sh[0] == 1 for sh in shapes.values())
            def _same_for_all_channels(m, s=s, shapes=shapes):
                arrs = {n: np.asarray(getattr(s._integrator, n)) for n in shapes}
                differs = [n for n, a in arrs.items() if a.shape[0] > 1 and not all(np.array_equal(a[0], a[c]) for c in range(1, a.shape[0]))]
                return {"reproduced": bool(differs), "detail": f"coefficient array shapes {shapes}; arrays that differ between channels: {differs}"}

            ck.add(f"step/static/{nm}/order{o}/channel-independent-multiplier", bool(ok), [], family="3D steppers: one linear multiplier for all channels (static)",
                   replay=_same_for_all_channels, meta={"structural": True})
