"""C11 -- dissipative and dispersive linear steppers never amplify any state.

Decomposition (the monolithic inequality is only tractable for N <= 4):
(L1) for every stored mode the argument the real constructor passes to exp has
     non-positive real part under the documented sign conditions (dt>0, nu>=0,
     A symmetric positive semidefinite, zeta>=0), exactly zero for advection /
     dispersion, strictly negative for k != 0 when nu>0 -- hence |E_k| <= 1
     (= 1, < 1) by the sound facts about exp.
(L2) Parseval for the code's transform pair: sum_x u^2 = N^-D sum_k w_k |fft(u)_k|^2.
(L3) ifft of an arbitrary half spectrum equals ifft of its Hermitian part, and
     the Hermitian projection does not increase the weighted norm.
Composition: ||step u||^2 = ||ifft(E fft u)||^2 <= N^-D sum w |E u_hat|^2
             <= N^-D sum w |u_hat|^2 = ||u||^2.   (monolithic cross-check N in {3,4})
Wave: the spectral energy |v_k|^2 + w_k^2 |h_k|^2 is conserved per mode.
"""
from __future__ import annotations

from fractions import Fraction

import numpy as np
import z3

import exponax as ex
import jax.numpy as jnp

from vlib import oracle as orc
from vlib import sym
from vlib.eqinst import Encoded, In
from vlib.sym import Cx, ONE, ZERO

S = ex.stepper


def weights(D, N):
    """Parseval weight of every stored mode: 1 on the self-conjugate planes of the last axis, 2 elsewhere"""
    w = {}
    for idx, m in orc.stored_modes(D, N):
        w[idx] = 1 if (m[-1] == 0 or (N % 2 == 0 and m[-1] == N // 2)) else 2
    return w


def build(ck):
    ck.encode_fn(S.Advection, S.Diffusion, S.AdvectionDiffusion, S.Dispersion, S.HyperDiffusion, S.Wave, ex.etdrk.ETDRK0, ex.etdrk.BaseETDRK, ex.fft, ex.ifft, ex.BaseStepper.step)
    thorough = ck.tier == "thorough"
    grids = [(1, 5), (1, 6), (2, 4), (2, 5), (3, 3)] + ([(1, 3), (1, 4), (1, 7), (1, 8), (2, 3), (2, 6), (3, 4)] if thorough else [])
    ck.bound("grids (D,N): " + ", ".join(map(str, grids)) + "; dt any positive real (so dt up to 1e6 is included), L>0, coefficients any reals satisfying the sign conditions; arbitrary states (Nyquist content included)")
    ck.assume("real arithmetic; exp Ackermannised with the sound facts Re a <= 0 => |exp a| <= 1, Re a = 0 => |exp a| = 1 (used in the hand composition, not in a query)")
    only = getattr(ck, "only", None)
    want = lambda t: (not only) or only in t
    for D, N in grids:
        if want(f"L1/D{D}N{N}"):
            _symbols(ck, D, N)
        if want(f"L2/D{D}N{N}") and N ** D <= 27:
            _parseval(ck, D, N)
        if want(f"L3/D{D}N{N}") and N ** D <= 36:
            _hermitian_projection(ck, D, N)
        if want(f"wave/D{D}N{N}"):
            _wave_energy(ck, D, N)
    if want("mono"):
        for N in (3, 4):
            _monolithic(ck, N)


def _symbols(ck, D, N):
    spec = (1,) + orc.spectrum_shape(D, N)
    # symmetric positive semidefinite matrices are exactly the products G^T G (Cholesky, G upper triangular):
    # the matrix input is built from a free G, which covers every SPD/PSD matrix
    G = [[z3.Real(f"G_{i}_{j}") if j >= i else None for j in range(D)] for i in range(D)]
    Aarr = np.empty((D, D), dtype=object)
    for i in range(D):
        for j in range(D):
            terms = [G[k][i] * G[k][j] for k in range(D) if G[k][i] is not None and G[k][j] is not None]
            Aarr[i, j] = z3.Sum(terms) if len(terms) > 1 else terms[0]
    A = In("A", (D, D), sym_arr=Aarr)
    psd = []
    cases = [
        ("Advection", [In("c", (D,))], lambda L, dt, c: S.Advection(D, L, N, dt, velocity=c), lambda p: [], "zero"),
        ("Dispersion/mix=False", [In("xi", (D,))], lambda L, dt, xi: S.Dispersion(D, L, N, dt, dispersivity=xi), lambda p: [], "zero"),
        ("Dispersion/mix=True", [In("xi", (D,))], lambda L, dt, xi: S.Dispersion(D, L, N, dt, dispersivity=xi, advect_on_diffusion=True), lambda p: [], "zero"),
        ("Diffusion/vector", [In("nu", (D,))], lambda L, dt, nu: S.Diffusion(D, L, N, dt, diffusivity=nu), lambda p: [p[0][d] >= 0 for d in range(D)], "nonpos"),
        ("Diffusion/matrix", [A], lambda L, dt, A_: S.Diffusion(D, L, N, dt, diffusivity=A_), lambda p: psd, "nonpos"),
        ("AdvectionDiffusion", [In("c", (D,)), In("nu", (D,))], lambda L, dt, c, nu: S.AdvectionDiffusion(D, L, N, dt, velocity=c, diffusivity=nu), lambda p: [p[1][d] >= 0 for d in range(D)], "nonpos"),
        ("HyperDiffusion/mix=False", [In("zeta", ())], lambda L, dt, z: S.HyperDiffusion(D, L, N, dt, hyper_diffusivity=z), lambda p: [p[0][()] >= 0], "nonpos"),
        ("HyperDiffusion/mix=True", [In("zeta", ())], lambda L, dt, z: S.HyperDiffusion(D, L, N, dt, hyper_diffusivity=z, diffuse_on_diffuse=True), lambda p: [p[0][()] >= 0], "nonpos"),
    ]
    for name, pins, ctor, cond, kind in cases:
        ins = [In("L", (), lo=0.5, hi=2.0), In("dt", (), lo=0.01, hi=0.05)] + pins
        enc = Encoded(lambda L, dt, *ps, ctor=ctor: ctor(L, dt, *ps)._integrator._exp_term, ins, tag="s")
        L, dt = ins[0].s, ins[1].s
        ps = [i.sym for i in ins[2:]]
        pre = [L > 0, dt > 0] + cond(ps)
        arg = enc.interp.calls["exp"][0]["arg"]
        for idx, m in orc.stored_modes(D, N):
            a = sym.asc(arg[(0,) + idx])
            nm = f"L1/D{D}N{N}/{name}/{'_'.join(map(str, idx))}"
            if kind == "zero":
                g = sym.rcmp("eq", a.re, ZERO)
            else:
                g = sym.rcmp("le", a.re, ZERO)
            ck.add(nm, g, pre, family=f"Re(dt*symbol) {'= 0' if kind == 'zero' else '<= 0'}/{name}", replay=_amp_replay(name, D, N, ctor, pins))
            if name == "Diffusion/vector" and any(m):
                strict = [ps[0][d] > 0 for d in range(D)]
                ck.add(nm + "/strict", sym.rcmp("lt", a.re, ZERO), [L > 0, dt > 0] + strict, family="Re(dt*symbol) < 0 for k != 0 when nu > 0")
        # twin: without the sign condition amplification is possible
        if kind == "nonpos" and name != "Diffusion/matrix":  # (the matrix input is positive semidefinite by construction)
            idx = (0,) * (D - 1) + (1,)
            ck.add(f"L1/D{D}N{N}/{name}/twin", sym.rcmp("le", sym.asc(arg[(0,) + idx]).re, ZERO), [L > 0, dt > 0], family="L1/twin", expect="sat")


def _amp_replay(name, D, N, ctor, pins):
    def replay(model):
        from fractions import Fraction as F

        def g(n, d):
            v = model.get(n)
            return float(v) if isinstance(v, F) else d

        L, dt = g("L", 1.0), g("dt", 1.0)
        ps = []
        for p in pins:
            arr = np.zeros(p.shape)
            for i in np.ndindex(p.shape):
                arr[i] = g(p.name + "".join(f"_{k}" for k in i), 0.5)
            ps.append(jnp.asarray(arr))
        st = ctor(L, dt, *ps)
        E = np.asarray(st.step_fourier(jnp.ones((1,) + orc.spectrum_shape(D, N), dtype=complex)))
        mx = float(np.max(np.abs(E)))
        return {"reproduced": mx > 1 + 1e-9, "detail": f"{name}: max_k |multiplier| = {mx} at L={L}, dt={dt}, params={[np.asarray(p).tolist() for p in ps]}"}

    return replay


def _parseval(ck, D, N):
    ins = [In("u", (1,) + (N,) * D)]
    enc = Encoded(lambda u: ex.fft(u), ins, tag="pv")
    u = ins[0].sym
    w = weights(D, N)
    lhs = sym.rsum([sym.rmul(u[i], u[i]) for i in np.ndindex(u.shape)])
    rhs = sym.rmul(orc.fl(Fraction(1, N**D)), sym.rsum([sym.rmul(orc.fl(w[idx]), sym.cabs2(sym.asc(enc.outs[0][(0,) + idx]))) for idx, _ in orc.stored_modes(D, N)]))
    ck.add(f"L2/D{D}N{N}/parseval", sym.rcmp("eq", lhs, rhs), [], family="Parseval for ex.fft with layout weights", timeout=300)  # generic replay: ex.fft at the model's state
    ck.add(f"L2/D{D}N{N}/twin", sym.rcmp("eq", lhs, sym.rmul(orc.fl(2), rhs)), [], family="L2/twin", expect="sat", timeout=300)


def _hermitian_projection(ck, D, N):
    spec = (1,) + orc.spectrum_shape(D, N)
    ins = [In("v", spec, "complex")]
    enc = Encoded(lambda v: ex.ifft(v, num_spatial_dims=D, num_points=N), ins, tag="hp")
    v = ins[0].sym
    # Hermitian part: on the self-conjugate planes average with the conjugate partner
    H = np.empty(spec, dtype=object)
    half = orc.fl(Fraction(1, 2))
    for idx, m in orc.stored_modes(D, N):
        if m[-1] == 0 or (N % 2 == 0 and m[-1] == N // 2):
            j = tuple((-i) % N for i in idx[:-1]) + (idx[-1],)
            H[(0,) + idx] = sym.cscale(sym.cadd(sym.asc(v[(0,) + idx]), sym.cconj(sym.asc(v[(0,) + j]))), half)
        else:
            H[(0,) + idx] = sym.asc(v[(0,) + idx])
    enc2 = enc.clone_with([In("v", spec, "complex", sym_arr=H)], tag="hp2")
    enc.compare(ck, f"L3/D{D}N{N}/ifft-ignores-non-hermitian-part", 0, enc2.outs[0], [], family="ifft(v) = ifft(Hermitian part of v)")
    # the projection does not increase the weighted norm: pairwise inequality on the planes
    seen = set()
    for idx, m in orc.stored_modes(D, N):
        if not (m[-1] == 0 or (N % 2 == 0 and m[-1] == N // 2)):
            continue
        j = tuple((-i) % N for i in idx[:-1]) + (idx[-1],)
        key = tuple(sorted([idx, j]))
        if key in seen:
            continue
        seen.add(key)
        a, b = sym.asc(v[(0,) + idx]), sym.asc(v[(0,) + j])
        before = sym.cabs2(a) if idx == j else sym.radd(sym.cabs2(a), sym.cabs2(b))
        after = sym.cabs2(sym.asc(H[(0,) + idx])) if idx == j else sym.radd(sym.cabs2(sym.asc(H[(0,) + idx])), sym.cabs2(sym.asc(H[(0,) + j])))
        ck.add(f"L3/D{D}N{N}/projection-contracts/{'_'.join(map(str, idx))}", sym.rcmp("le", after, before), [], family="Hermitian projection does not increase the weighted norm")


def _wave_energy(ck, D, N):
    spec = (2,) + orc.spectrum_shape(D, N)
    ins = [In("L", (), lo=0.5, hi=2.0), In("dt", (), lo=-0.5, hi=0.5), In("c", (), lo=0.5, hi=2.0), In("uh", spec, "complex")]
    enc = Encoded(lambda L, dt, c, uh: S.Wave(D, L, N, dt, speed_of_sound=c).step_fourier(uh), ins, tag="we")
    L, dt, c, uh = ins[0].s, ins[1].s, ins[2].s, ins[3].sym
    W = orc.two_pi_over(L)
    E = enc.interp.calls["exp"][0]["out"]
    pre = [L > 0, c > 0] + enc.interp.sound_facts()
    for idx, m in orc.stored_modes(D, N):
        if not any(m):
            continue
        k2 = sym.rsum([sym.rpow_int(sym.rmul(orc.fl(mm), W), 2) for mm in m])
        w2 = sym.rmul(sym.rmul(c, c), k2)
        Ep, En = sym.asc(E[(0,) + idx]), sym.asc(E[(1,) + idx])
        # sound facts for exp(+-i w dt): conjugate pair on the unit circle (arguments checked in C01)
        ef = [En.re == Ep.re, En.im == -Ep.im, Ep.re * Ep.re + Ep.im * Ep.im == 1]
        e_in = sym.radd(sym.cabs2(sym.asc(uh[(1,) + idx])), sym.rmul(w2, sym.cabs2(sym.asc(uh[(0,) + idx]))))
        e_out = sym.radd(sym.cabs2(sym.asc(enc.outs[0][(1,) + idx])), sym.rmul(w2, sym.cabs2(sym.asc(enc.outs[0][(0,) + idx]))))
        ck.add(f"wave/D{D}N{N}/energy/{'_'.join(map(str, idx))}", sym.rcmp("eq", e_out, e_in), pre + ef, family="wave: spectral energy per mode conserved", timeout=120,
               replay=_wave_energy_replay(D, N, idx, m))


def _wave_energy_replay(D, N, idx, m):
    def replay(model):
        import math
        from fractions import Fraction as F

        def g(n, d):
            v = model.get(n)
            return float(v) if isinstance(v, F) else d

        # the model's (L, c, dt) first, then stress points (large and small domains)
        for L, c, dt in [(g("L", 1.3), g("c", 1.1), g("dt", 0.3)), (20.0, 1.0, 0.7), (31.0, 0.5, 1.3), (0.5, 2.0, 0.2)]:
            if L <= 0 or c <= 0:
                continue
            st = S.Wave(D, L, N, dt, speed_of_sound=c)
            uh = np.zeros((2,) + orc.spectrum_shape(D, N), dtype=complex)
            uh[(0,) + idx] = 0.7 - 0.2j
            uh[(1,) + idx] = -0.4 + 0.9j
            out = np.asarray(st.step_fourier(jnp.asarray(uh)))
            w2 = (c * 2 * math.pi / L) ** 2 * sum(x * x for x in m)
            e0 = abs(uh[(1,) + idx]) ** 2 + w2 * abs(uh[(0,) + idx]) ** 2
            e1 = abs(out[(1,) + idx]) ** 2 + w2 * abs(out[(0,) + idx]) ** 2
            if abs(e1 - e0) > 1e-9 * (1 + e0):
                return {"reproduced": True, "detail": f"Wave(D={D},L={L},N={N},dt={dt},c={c}) mode {m}: spectral energy {e0:.6g} -> {e1:.6g} in one step"}
        return {"reproduced": False, "detail": "spectral wave energy conserved at the model's and the stress parameter points"}

    return replay


def _monolithic(ck, N):
    """cross-check of the composition: 1D, multiplier array free with |E_k| <= 1"""
    import equinox as eqx

    spec = (1, N // 2 + 1)
    ins = [In("E", spec, "complex"), In("u", (1, N))]

    def f(E, u):
        s = S.Diffusion(1, 1.0, N, 0.1)
        s = eqx.tree_at(lambda t: t._integrator._exp_term, s, E)
        return s(u)

    enc = Encoded(f, ins, tag="mono")
    E, u = ins[0].sym, ins[1].sym
    pre = [sym.rcmp("le", sym.cabs2(sym.asc(E[0, k])), ONE) for k in range(N // 2 + 1)]
    lhs = sym.rsum([sym.rmul(enc.outs[0][i], enc.outs[0][i]) for i in np.ndindex(u.shape)])
    rhs = sym.rsum([sym.rmul(u[i], u[i]) for i in np.ndindex(u.shape)])
    ck.add(f"mono/N{N}", sym.rcmp("le", lhs, rhs), pre, family="monolithic ||step u|| <= ||u|| (cross-check)", timeout=300, stretch=(N == 4))
