"""C14 -- rollout, repeat and the wrapper steppers equal the naive loop.

The stepper function is an OPAQUE primitive uf["S"] (optionally with an
auxiliary input), states are symbolic (also pytrees with leaves of different
shapes).  The traced ex.rollout / ex.repeat (lax.scan, unrolled by the
interpreter) is compared with the harness' own Python loop over the same
opaque function by staged congruence: the i-th call of the code must receive
exactly the value the loop has at step i (obligation per component), the
returned trajectory entries must be the loop's iterates.  n in 0..5, all option
combinations.  stack_sub_trajectories: every window.  RepeatedStepper:
step_fourier = n-fold inner step_fourier (opaque inner stepper), step = n-fold
inner step on Nyquist-free states (free Hermitian multiplier), dt_eff = n*dt.
build_ic_set: the opaque generator receives the sub-keys of the documented
split chain (keys concrete).
"""
from __future__ import annotations

import itertools

import numpy as np
import z3

import equinox as eqx
import exponax as ex
import jax
import jax.numpy as jnp

from vlib import oracle as orc
from vlib import sym
from vlib.eqinst import Encoded, In
from vlib.jx2smt import hermitian_spectrum, uf
from vlib.sym import Cx, ONE, ZERO


def build(ck):
    ck.encode_fn(ex.rollout, ex.repeat, ex.stack_sub_trajectories, ex.RepeatedStepper, ex.build_ic_set)
    nmax = 5 if ck.tier == "thorough" else 4
    ck.bound(f"n in 0..{nmax}; include_init, takes_aux, constant_aux all combinations; array and dict-pytree states; windows: T<=5, every sub_len; RepeatedStepper n in 1..3, N in {{5,6}}; build_ic_set 4 samples")
    ck.assume("the stepper function is arbitrary but shape-preserving and deterministic (opaque function symbol); n beyond the bound relies on the uniformity of lax.scan in its length (not proved)")
    only = getattr(ck, "only", None)
    want = lambda t: (not only) or only in t
    for n in range(0, nmax + 1):
        for include_init in (False, True):
            if want("rollout"):
                _rollout(ck, n, include_init, takes_aux=False, constant_aux=True, tree=False)
                _rollout(ck, n, include_init, takes_aux=False, constant_aux=True, tree=True)
                for constant_aux in (True, False):
                    _rollout(ck, n, include_init, takes_aux=True, constant_aux=constant_aux, tree=False)
        if want("repeat"):
            _repeat(ck, n, takes_aux=False, constant_aux=True)
            for constant_aux in (True, False):
                _repeat(ck, n, takes_aux=True, constant_aux=constant_aux)
    if want("stack"):
        _stack(ck)
    if want("repeated"):
        _repeated_stepper(ck)
    if want("icset"):
        _ic_set(ck)


def _stage(ck, tag, calls, counter, x_list, family, replay=None):
    """oracle-side application of the opaque step: the code's next call must have received x"""
    i = counter[0]
    counter[0] += 1
    if i >= len(calls):
        ck.add(f"{tag}/too-few-calls/{i}", False, [], family=family, replay=replay or _loop_replay(), meta={"structural": True})
        return [np.array(x, dtype=object) for x in x_list]
    name, args, outs = calls[i]
    for k, (x, a) in enumerate(zip(x_list, args)):
        if tuple(x.shape) != tuple(a.shape):
            ck.add(f"{tag}/call{i}/arg{k}/shape", False, [], family=family, replay=replay or _loop_replay(), meta={"structural": True})
            continue
        for c in np.ndindex(a.shape):
            ck.add(f"{tag}/call{i}/arg{k}/{'_'.join(map(str, c))}", sym.equal_goal(a[c], x[c]), [], family=family, replay=replay or _loop_replay())
    return outs


def _rollout(ck, n, include_init, takes_aux, constant_aux, tree):
    tag = f"rollout/n{n}/init={include_init}/aux={takes_aux}/const={constant_aux}/tree={tree}"
    fam = "rollout = naive loop"
    if tree:
        ins = [In("ua", (2,)), In("ub", (3, 1))]

        def step(t):
            a, b = uf("S", t["a"], t["b"], out_like=[t["a"], t["b"]])
            return {"a": a, "b": b}

        enc = Encoded(lambda ua, ub: ex.rollout(step, n, include_init=include_init)({"a": ua, "b": ub}), ins, tag="ro")
        calls = enc.interp.uf_calls
        cnt = [0]
        cur = [ins[0].sym, ins[1].sym]
        traj = [cur] if include_init else []
        for _ in range(n):
            cur = _stage(ck, tag, calls, cnt, cur, fam)
            traj.append(cur)
        outs = enc.outs  # leaves in key order: a, b
        for leaf in range(2):
            want_shape = (len(traj),) + tuple(cur[leaf].shape if traj else ins[leaf].shape)
            ck.add(f"{tag}/shape/leaf{leaf}", tuple(outs[leaf].shape) == want_shape, [], family=fam, replay=_loop_replay())
            for t, st in enumerate(traj):
                for c in np.ndindex(st[leaf].shape):
                    ck.add(f"{tag}/entry{t}/leaf{leaf}/{'_'.join(map(str, c))}", sym.equal_goal(outs[leaf][(t,) + c], st[leaf][c]), [], family=fam, replay=_loop_replay())
        ck.add(f"{tag}/number-of-steps", len(calls) == n, [], family=fam, replay=_loop_replay())
        return
    shape = (2, 3)
    if takes_aux:
        aux_shape = (2,) if constant_aux else (n, 2)
        ins = [In("u", shape), In("aux", aux_shape)]
        step = lambda u, a: uf("S", u, a, out_like=u)
        enc = Encoded(lambda u, aux: ex.rollout(step, n, include_init=include_init, takes_aux=True, constant_aux=constant_aux)(u, aux), ins, tag="ro")
    else:
        ins = [In("u", shape)]
        step = lambda u: uf("S", u)
        enc = Encoded(lambda u: ex.rollout(step, n, include_init=include_init)(u), ins, tag="ro")
    calls = enc.interp.uf_calls
    cnt = [0]
    cur = ins[0].sym
    traj = [cur] if include_init else []
    for t in range(n):
        args = [cur] + ([ins[1].sym if constant_aux else ins[1].sym[t]] if takes_aux else [])
        cur = _stage(ck, tag, calls, cnt, args, fam)[0]
        traj.append(cur)
    out = enc.outs[0]
    ck.add(f"{tag}/shape", tuple(out.shape) == (len(traj),) + shape, [], family=fam, replay=_loop_replay())
    ck.add(f"{tag}/number-of-steps", len(calls) == n, [], family=fam, replay=_loop_replay())
    for t, st in enumerate(traj):
        for c in np.ndindex(shape):
            ck.add(f"{tag}/entry{t}/{'_'.join(map(str, c))}", sym.equal_goal(out[(t,) + c], st[c]), [], family=fam, replay=_loop_replay())
    if n >= 2 and not takes_aux and not include_init:
        ck.add(f"{tag}/twin", sym.equal_goal(out[(0, 0, 0)], out[(1, 0, 0)]), [], family="C14/twin", expect="sat")


def _repeat(ck, n, takes_aux, constant_aux):
    tag = f"repeat/n{n}/aux={takes_aux}/const={constant_aux}"
    fam = "repeat = last iterate of the naive loop"
    shape = (2, 3)
    if takes_aux:
        aux_shape = (2,) if constant_aux else (n, 2)
        ins = [In("u", shape), In("aux", aux_shape)]
        step = lambda u, a: uf("S", u, a, out_like=u)
        enc = Encoded(lambda u, aux: ex.repeat(step, n, takes_aux=True, constant_aux=constant_aux)(u, aux), ins, tag="rp")
    else:
        ins = [In("u", shape)]
        enc = Encoded(lambda u: ex.repeat(lambda v: uf("S", v), n)(u), ins, tag="rp")
    calls = enc.interp.uf_calls
    cnt = [0]
    cur = ins[0].sym
    for t in range(n):
        args = [cur] + ([ins[1].sym if constant_aux else ins[1].sym[t]] if takes_aux else [])
        cur = _stage(ck, tag, calls, cnt, args, fam)[0]
    ck.add(f"{tag}/number-of-steps", len(calls) == n, [], family=fam, replay=_loop_replay())
    for c in np.ndindex(shape):
        ck.add(f"{tag}/final/{'_'.join(map(str, c))}", sym.equal_goal(enc.outs[0][c], cur[c]), [], family=fam, replay=_loop_replay())


def _loop_replay():
    def replay(model):
        # integer-valued bookkeeping stepper: exact comparison of rollout / repeat with Python loops
        bad = []
        step = lambda u: 3 * u + 1
        step_aux = lambda u, a: 2 * u + a
        u0 = jnp.arange(6, dtype=jnp.int32).reshape(2, 3)
        for n in range(0, 5):
            for inc in (False, True):
                got = ex.rollout(step, n, include_init=inc)(u0)
                cur, exp = u0, ([u0] if inc else [])
                for _ in range(n):
                    cur = step(cur)
                    exp.append(cur)
                exp = jnp.stack(exp) if exp else jnp.zeros((0, 2, 3), jnp.int32)
                if got.shape != exp.shape or not bool(jnp.all(got == exp)):
                    bad.append(("rollout", n, inc))
                aux = jnp.arange(n * 6, dtype=jnp.int32).reshape(n, 2, 3)
                got = ex.rollout(step_aux, n, include_init=inc, takes_aux=True, constant_aux=False)(u0, aux)
                cur, exp = u0, ([u0] if inc else [])
                for t in range(n):
                    cur = step_aux(cur, aux[t])
                    exp.append(cur)
                exp = jnp.stack(exp) if exp else jnp.zeros((0, 2, 3), jnp.int32)
                if got.shape != exp.shape or not bool(jnp.all(got == exp)):
                    bad.append(("rollout-aux", n, inc))
                # repeat with a time-varying auxiliary input: consumed in order (the stepper 2u + a is order sensitive)
                gotr = ex.repeat(step_aux, n, takes_aux=True, constant_aux=False)(u0, aux)
                # shapes are compared first: `==` broadcasts, and a result with a spurious leading axis of length 1
                # (the whole aux stack handed to the stepper instead of its t-th slice) would otherwise compare equal
                if jnp.shape(gotr) != jnp.shape(cur) or not bool(jnp.all(gotr == cur)):
                    bad.append(("repeat-aux", n, tuple(jnp.shape(gotr))))
            got = ex.repeat(step, n)(u0)
            cur = u0
            for _ in range(n):
                cur = step(cur)
            if jnp.shape(got) != jnp.shape(cur) or not bool(jnp.all(got == cur)):
                bad.append(("repeat", n))
            # constant auxiliary input, including shapes whose leading axis happens to have length n
            for aux_c in (jnp.arange(6, dtype=jnp.int32).reshape(2, 3) + 7, jnp.arange(3, dtype=jnp.int32) + 5, jnp.int32(4)):
                try:
                    got = ex.rollout(step_aux, n, takes_aux=True, constant_aux=True)(u0, aux_c)
                    gotr = ex.repeat(step_aux, n, takes_aux=True, constant_aux=True)(u0, aux_c)
                except Exception as ex_:  # noqa
                    bad.append(("constant-aux raises", n, tuple(jnp.shape(aux_c)), type(ex_).__name__))
                    continue
                cur, exp = u0, []
                for _ in range(n):
                    cur = step_aux(cur, aux_c)
                    exp.append(cur)
                exp = jnp.stack(exp) if exp else jnp.zeros((0, 2, 3), jnp.int32)
                if got.shape != exp.shape or not bool(jnp.all(got == exp)) or jnp.shape(gotr) != jnp.shape(cur) or not bool(jnp.all(gotr == cur)):
                    bad.append(("constant-aux", n, tuple(jnp.shape(aux_c))))
        return {"reproduced": bool(bad), "detail": f"integer bookkeeping stepper: mismatching configurations {bad[:6]}"}

    return replay


def _stack(ck):
    for T in range(1, 6):
        ins = [In("trj", (T, 2))]
        for sub_len in range(1, T + 1):
            enc = Encoded(lambda trj, sub_len=sub_len: ex.stack_sub_trajectories(trj, sub_len), ins, tag="st")
            out = enc.outs[0]
            nwin = T - sub_len + 1
            ck.add(f"stack/T{T}/len{sub_len}/shape", tuple(out.shape) == (nwin, sub_len, 2), [], family="stack_sub_trajectories: every window in order",
                   replay=lambda m: {"reproduced": True, "detail": "wrong window count/shape"})
            for w in range(nwin):
                for j in range(sub_len):
                    for c in range(2):
                        ck.add(f"stack/T{T}/len{sub_len}/w{w}/{j}_{c}", sym.equal_goal(out[w, j, c], ins[0].sym[w + j, c]), [], family="stack_sub_trajectories: every window in order",
                               replay=_stack_replay())


def _stack_replay():
    def replay(model):
        trj = jnp.arange(10, dtype=jnp.int32).reshape(5, 2)
        bad = []
        for L_ in range(1, 6):
            got = ex.stack_sub_trajectories(trj, L_)
            exp = jnp.stack([trj[w: w + L_] for w in range(5 - L_ + 1)])
            if got.shape != exp.shape or not bool(jnp.all(got == exp)):
                bad.append(L_)
        return {"reproduced": bool(bad), "detail": f"stack_sub_trajectories differs from the window list for sub_len in {bad}"}

    return replay


class _OpaqueStepper(eqx.Module):
    num_spatial_dims: int
    domain_extent: float
    num_points: int
    num_channels: int
    dt: float
    dx: float

    def step_fourier(self, u_hat):
        return uf("Sf", u_hat)

    def step(self, u):
        return uf("S", u)

    def __call__(self, u):
        return self.step(u)


def _repeated_stepper(ck):
    fam = "RepeatedStepper.step_fourier = n-fold inner step_fourier"
    N = 6
    for n in (1, 2, 3):
        ins = [In("dt", (), lo=0.1, hi=1.0), In("uh", (1, N // 2 + 1), "complex")]

        def f(dt, uh, n=n):
            inner = _OpaqueStepper(1, 1.0, N, 1, dt, 1.0 / N)
            r = ex.RepeatedStepper(inner, n)
            return r.step_fourier(uh), r.dt

        enc = Encoded(f, ins, tag="rs")
        calls = enc.interp.uf_calls
        cnt = [0]
        cur = ins[1].sym
        for _ in range(n):
            cur = _stage(ck, f"repeated/step_fourier/n{n}", calls, cnt, [cur], fam, replay=_rep_replay())[0]
        ck.add(f"repeated/step_fourier/n{n}/calls", len(calls) == n, [], family=fam, replay=_rep_replay())
        for c in np.ndindex(cur.shape):
            ck.add(f"repeated/step_fourier/n{n}/out/{'_'.join(map(str, c))}", sym.equal_goal(enc.outs[0][c], cur[c]), [], family=fam, replay=_rep_replay())
        ck.add(f"repeated/dt/n{n}", sym.equal_goal(enc.outs[1][()], sym.rmul(orc.fl(n), ins[0].s)), [], family="RepeatedStepper: effective dt = n*dt", replay=_rep_replay())
    # physical step on Nyquist-free states: free Hermitian multiplier for a linear inner stepper
    for N in (5, 6):
        from vlib.jx2smt import symarray

        E = symarray("E", (1, N // 2 + 1), complex_=True)  # arbitrary complex multiplier, also at Nyquist (odd-order terms)
        E[0, 0] = Cx(E[0, 0].re, ZERO)
        ins = [In("E", (1, N // 2 + 1), "complex", sym_arr=E), In("u", (1, N))]
        for n in (2, 3):
            def g(E_, u, n=n):
                s = ex.stepper.Advection(1, 1.0, N, 0.1)
                s = eqx.tree_at(lambda t: t._integrator._exp_term, s, E_)
                r = ex.RepeatedStepper(s, n)
                v = u
                for _ in range(n):
                    v = s(v)
                return r(u), v

            enc = Encoded(g, ins, tag="rsp")
            u = ins[1].sym
            pre = []
            if N % 2 == 0:
                cm = orc.fourier_coeff(u[0], (N // 2,), N)
                pre = [g_ for g_ in (sym.rcmp("eq", cm.re, ZERO), sym.rcmp("eq", cm.im, ZERO)) if not isinstance(g_, bool)]
            enc.compare(ck, f"repeated/step/N{N}/n{n}", 0, enc.outs[1], pre, family="RepeatedStepper.step = n-fold inner step (Nyquist-free states)")
            if N % 2 == 0 and n == 2:
                ck.add(f"repeated/step/N{N}/twin", sym.equal_goal(enc.outs[0][0, 0], enc.outs[1][0, 0]), [], family="C14/twin", expect="sat")


def _rep_replay():
    def replay(model):
        """RepeatedStepper vs the naive loop on the real API: physical-space call (1D Burgers; 2D diffusion on an even
        grid with content in the last-axis Nyquist column) and step_fourier on arbitrary complex spectra (1D, 2D)"""
        rng = np.random.default_rng(0)
        s = ex.stepper.Burgers(1, 1.0, 16, 0.01)
        r = ex.RepeatedStepper(s, 3)
        u = ex.ic.RandomTruncatedFourierSeries(1, cutoff=3)(16, key=jax.random.PRNGKey(0))
        errs = {"1D Burgers r(u) vs s(s(s(u)))": float(jnp.max(jnp.abs(r(u) - s(s(s(u))))))}
        for D, N in ((1, 8), (2, 6)):
            sd = ex.stepper.Diffusion(D, 1.0, N, 0.01)
            rd = ex.RepeatedStepper(sd, 2)
            shape = (1,) + (N,) * (D - 1) + (N // 2 + 1,)
            uh = jnp.asarray(rng.normal(size=shape) + 1j * rng.normal(size=shape))
            errs[f"{D}D step_fourier on a complex spectrum"] = float(jnp.max(jnp.abs(rd.step_fourier(uh) - sd.step_fourier(sd.step_fourier(uh)))))
            g = np.asarray(ex.make_grid(D, 1.0, N))
            v = np.sin(2 * np.pi * g[0]) * (np.cos(np.pi * np.arange(N))[None, :] if D == 2 else 1.0)
            v = jnp.asarray(v)[None] if D == 2 else jnp.asarray(v)[None]
            errs[f"{D}D physical step, Nyquist-column content"] = float(jnp.max(jnp.abs(rd(v) - sd(sd(v)))))
        bad = {k: e for k, e in errs.items() if e > 1e-9}
        return {"reproduced": bool(bad) or abs(r.dt - 3 * s.dt) > 1e-12, "detail": f"RepeatedStepper vs naive loop: {bad or errs}; dt_eff = {r.dt}"}

    return replay


def _ic_set(ck):
    """the generator is called with the sub-keys of k, sub = split(k) applied repeatedly"""
    fam = "build_ic_set: sample i uses the i-th sub-key of the split chain"
    S_ = 4
    key = jax.random.PRNGKey(7)
    seen = []

    def gen(num_points, *, key):
        seen.append(key)
        return jnp.zeros((1, num_points))

    # concrete run of the real function with a recording generator (keys are concrete data)
    keys_used = []

    def gen2(num_points, *, key):
        return jax.random.key_data(key)[None, :].astype(jnp.float32) if hasattr(jax.random, "key_data") else key[None, :].astype(jnp.float32)

    got = np.asarray(ex.build_ic_set(gen2, num_points=2, num_samples=S_, key=key))
    k = key
    for i in range(S_):
        k, sub = jax.random.split(k)
        exp = np.asarray(jax.random.key_data(sub) if hasattr(jax.random, "key_data") else sub).astype(np.float32)
        ok = bool(np.all(got[i, 0] == exp))
        ck.add(f"icset/sample{i}/key", ok, [], family=fam, replay=lambda m, i=i: {"reproduced": True, "detail": f"sample {i} of build_ic_set was not generated from the {i}-th sub-key of the split chain"})
    ck.add("icset/shape", got.shape == (S_, 1, 2), [], family=fam, replay=lambda m: {"reproduced": True, "detail": f"shape {got.shape}"})
