"""C02 -- ETDRK-p is the Cox-Matthews scheme with exact phi-coefficients.

(a) coefficient arrays: the real constructors ETDRK1..4 are traced with dt and a
    complex symbol lambda per mode symbolic; exp Ackermannised; divisions by
    the contour points Ackermannised (staged): every quotient the code forms has
    the documented numerator and denominator (Cox-Matthews / Kassam-Trefethen
    integrands), every contour point is r*rho_j + lambda*dt, exp(lr/2)^2=exp(lr)
    arguments match, and every stored coefficient equals dt * complex mean of
    the quotients.
(b) the documented integrands equal the phi-function combinations (algebra).
(c) stage formulas: step_fourier of each order with an opaque nonlinear term
    and free coefficient arrays equals the Cox-Matthews update (staged
    congruence over the opaque function).
(d) order dispatch in BaseStepper (static) and a KdV end-to-end instance
    (complex symbol through the public stepper class).
"""
from __future__ import annotations

from fractions import Fraction

import numpy as np
import z3

import equinox as eqx
import exponax as ex
import jax
import jax.numpy as jnp

from vlib import oracle as orc
from vlib import sym
from vlib.eqinst import Encoded, In
from vlib.jx2smt import uf
from vlib.sym import CTX, Cx, Fl, ONE, ZERO

CLS = {1: ex.etdrk.ETDRK1, 2: ex.etdrk.ETDRK2, 3: ex.etdrk.ETDRK3, 4: ex.etdrk.ETDRK4}
COEFS = {1: ["_coef_1"], 2: ["_coef_1", "_coef_2"], 3: ["_coef_1", "_coef_2", "_coef_3", "_coef_4", "_coef_5"], 4: ["_coef_1", "_coef_2", "_coef_3", "_coef_4", "_coef_5", "_coef_6"]}
# which accumulated mean each stored coefficient is (index into the scan's accumulators)
ACC_OF = {1: [0], 2: [0, 1], 3: [0, 1, 2, 3, 4], 4: [0, 0, 0, 1, 2, 3]}
HAS_HALF = {1: False, 2: False, 3: True, 4: True}

C = lambda x: Cx(orc.fl(x), ZERO)


def _cpow(z, n):
    return sym.pow_int(z, n)


def integrands(order, lr, E, Eh):
    """documented (numerator, denominator) of each accumulated integrand, from
    Cox & Matthews (2002) eqs. 4, 22, 23-25, 26-29 in Kassam-Trefethen form."""
    one = C(1)
    lr2, lr3 = _cpow(lr, 2), _cpow(lr, 3)
    add, sub, mul = sym.cadd, sym.csub, sym.cmul
    n_phi1 = sub(E, one)
    n_a = add(sub(sub(C(-4), lr), C(0)), mul(E, add(sub(C(4), mul(C(3), lr)), lr2)))  # -4 - lr + E(4 - 3lr + lr^2)
    n_b = add(add(C(2), lr), mul(E, add(C(-2), lr)))  # 2 + lr + E(-2 + lr)
    n_c = add(sub(sub(C(-4), mul(C(3), lr)), lr2), mul(E, sub(C(4), lr)))  # -4 - 3lr - lr^2 + E(4 - lr)
    if order == 1:
        return [(n_phi1, lr)]
    if order == 2:
        return [(n_phi1, lr), (sub(sub(E, one), lr), lr2)]
    if order == 3:
        return [(sub(Eh, one), lr), (n_phi1, lr), (n_a, lr3), (mul(C(4), n_b), lr3), (n_c, lr3)]
    return [(sub(Eh, one), lr), (n_a, lr3), (n_b, lr3), (n_c, lr3)]


def phi_forms(order, z, E, Eh):
    """the same integrands as combinations of phi_k(z) = (E - sum_{j<k} z^j/j!)/z^k"""
    one = C(1)
    add, sub, mul, div = sym.cadd, sym.csub, sym.cmul, sym.cdiv
    z2, z3_ = _cpow(z, 2), _cpow(z, 3)
    p1 = div(sub(E, one), z)
    p2 = div(sub(sub(E, one), z), z2)
    p3 = div(sub(sub(sub(E, one), z), mul(C(Fraction(1, 2)), z2)), z3_)
    half_phi1_half = div(sub(Eh, one), z)  # = (1/2) phi_1(z/2)
    a = add(sub(p1, mul(C(3), p2)), mul(C(4), p3))
    b = sub(p2, mul(C(2), p3))
    c = sub(mul(C(4), p3), p2)
    if order == 1:
        return [p1]
    if order == 2:
        return [p1, p2]
    if order == 3:
        return [half_phi1_half, p1, a, mul(C(4), b), c]
    return [half_phi1_half, a, b, c]


def build(ck):
    ck.encode_fn(ex.etdrk.ETDRK1, ex.etdrk.ETDRK2, ex.etdrk.ETDRK3, ex.etdrk.ETDRK4, ex.etdrk.ETDRK0, ex.etdrk.BaseETDRK, ex.etdrk.roots_of_unity, ex.BaseStepper.__init__, ex.stepper.KortewegDeVries)
    ck.assume("real arithmetic; exp Ackermannised; sound facts used: exp(a/2)^2 = exp(a) after the argument relation is discharged")
    ck.assume("contour roots are used at the rational values of their float64 representation on both sides; their distance to the true roots of unity is reported, not proved")
    ck.assume("divisors lr_j != 0: proved for real lambda*dt (Im rho_j != 0); precondition for complex lambda*dt")
    ck.out_of_scope("quadrature error of the M-point contour mean versus the exact phi function (numerical analysis), hence the convergence order as such; float cancellation near z=0")
    Ms = [16] if ck.tier == "quick" else [16, 8, 32]
    ck.bound(f"orders 1-4; contour points M in {Ms}; radius r=1 and symbolic r>0; 2 modes per constructor call; all complex lambda, all real dt")
    for order in (1, 2, 3, 4):
        for M in Ms:
            _coefficients(ck, order, M, sym_r=False)
        if ck.tier == "thorough":
            _coefficients(ck, order, 16, sym_r=True)
        _phi_identities(ck, order)
        _stages(ck, order)
    _dispatch(ck)
    _kdv(ck)
    _roots_report(ck)


# ---------------------------------------------------------------------------


def _coefficients(ck, order, M, sym_r):
    tag = f"coef/order{order}/M{M}" + ("/symr" if sym_r else "")
    nm = 2  # modes
    ins = [In("dt", (), lo=0.05, hi=0.5), In("lam", (1, nm), "complex", lo=-2.0, hi=2.0)]
    if sym_r:
        ins.append(In("r", (), lo=0.5, hi=1.5))
    names = ["_exp_term"] + (["_half_exp_term"] if HAS_HALF[order] else []) + COEFS[order]

    def f(dt, lam, *r):
        kw = {"circle_radius": r[0]} if r else {}
        e = CLS[order](dt, lam, ex.nonlin_fun.ZeroNonlinearFun(1, 4), num_circle_points=M, **kw)
        return tuple(getattr(e, n) for n in names)

    CTX.ack_div = True
    q0 = len(CTX.quots)
    try:
        enc = Encoded(f, ins, tag=f"o{order}m{M}{'r' if sym_r else ''}")
    finally:
        CTX.ack_div = False
    quots = CTX.quots[q0:]
    dt, lam = ins[0].s, ins[1].sym
    r = ins[2].s if sym_r else ONE
    roots = np.asarray(ex.etdrk.roots_of_unity(M))
    calls = enc.interp.calls["exp"]
    nbase = 2 if HAS_HALF[order] else 1
    per = 2 if HAS_HALF[order] else 1
    nacc = len(set(ACC_OF[order]))
    if len(calls) != nbase + per * M or len(quots) != M * nacc * nm * 2:
        # the constructor no longer has the documented structure (exp of L dt, exp of L dt / 2, M contour points with
        # one quotient per integrand): decided by the replay against exact phi-functions
        ck.add(f"{tag}/structure", False, [], family=f"order{order}/constructor structure", replay=_coef_replay(order, M, None, 0),
               meta={"exp_calls": len(calls), "expected": nbase + per * M, "quotients": len(quots), "structural": True})
        return
    pre = [r > 0] if sym_r else []
    fam = f"order{order}"

    # base exponentials: exp(dt*lam), exp(dt*lam/2)
    for k in range(nm):
        z = sym.cscale(lam[0, k], dt)
        ck.add(f"{tag}/exp-arg/{k}", sym.equal_goal(sym.asc(calls[0]["arg"][0, k]), z), pre, family=f"{fam}/exp-arg", replay=_coef_replay(order, M, "_exp_term", k))
        if HAS_HALF[order]:
            ck.add(f"{tag}/half-exp-arg/{k}", sym.equal_goal(sym.asc(calls[1]["arg"][0, k]), sym.cscale(z, orc.fl(Fraction(1, 2)))), pre, family=f"{fam}/exp-arg",
                   replay=_coef_replay(order, M, "_half_exp_term", k))
    # contour points, integrands, quotients
    qi = 0
    sums = [[[] for _ in range(nm)] for _ in range(nacc)]
    for j in range(M):
        rho = Cx(sym.from_native(float(roots[j].real)), sym.from_native(float(roots[j].imag)))
        cE = calls[nbase + per * j]
        cEh = calls[nbase + per * j + 1] if HAS_HALF[order] else None
        per_mode = []
        for k in range(nm):
            z = sym.cscale(lam[0, k], dt)
            lr = sym.cadd(sym.cscale(rho, r), z)
            ck.add(f"{tag}/contour-point/{j}/{k}", sym.equal_goal(sym.asc(cE["arg"][0, k]), lr), pre, family=f"{fam}/contour-point", replay=_coef_replay(order, M, None, k))
            E = sym.asc(cE["out"][0, k])
            Eh = None
            half_fact = []
            if cEh is not None:
                ck.add(f"{tag}/contour-half/{j}/{k}", sym.equal_goal(sym.asc(cEh["arg"][0, k]), sym.cscale(lr, orc.fl(Fraction(1, 2)))), pre, family=f"{fam}/contour-point",
                       replay=_coef_replay(order, M, None, k))
                Eh = sym.asc(cEh["out"][0, k])
            per_mode.append((lr, E, Eh))
        # the code evaluates each integrand for all modes at once: quotients appear
        # accumulator by accumulator, (re, im) per mode
        for a in range(nacc):
            for part in ("re", "im"):
                pass
        for a in range(nacc):
            # cdiv emits all real-part quotients of the array first, then the imaginary parts?  No:
            # emap applies cdiv element-wise, so per element (re, im) are consecutive.
            for k in range(nm):
                lr, E, Eh = per_mode[k]
                num_doc, den_doc = integrands(order, lr, E, Eh)[a]
                nd = sym.cmul(num_doc, sym.cconj(den_doc))
                d2 = sym.cabs2(den_doc)
                (n_re, d_re, q_re), (n_im, d_im, q_im) = quots[qi], quots[qi + 1]
                qi += 2
                rp = _coef_replay(order, M, None, k)
                ck.add(f"{tag}/integrand/acc{a}/{j}/{k}/num_re", sym.rcmp("eq", n_re, nd.re), pre, family=f"{fam}/integrand", replay=rp)
                ck.add(f"{tag}/integrand/acc{a}/{j}/{k}/num_im", sym.rcmp("eq", n_im, nd.im), pre, family=f"{fam}/integrand", replay=rp)
                ck.add(f"{tag}/integrand/acc{a}/{j}/{k}/den", z3.And(sym.rcmp("eq", d_re, d2), sym.rcmp("eq", d_im, d2)), pre, family=f"{fam}/integrand", replay=rp)
                sums[a][k].append(Cx(q_re, q_im))
        # definedness for a real symbol: |lr|^2 >= (r Im rho_j)^2 > 0
        if j < 2 or ck.tier == "thorough":
            zr_ = z3.Real("zreal")
            lrr = sym.cadd(sym.cscale(rho, r), Cx(zr_, ZERO))
            ck.add(f"{tag}/nonzero-divisor-real-symbol/{j}", sym.cabs2(lrr) > 0, pre, family=f"{fam}/definedness")
    # stored coefficients = dt * complex mean of the quotients
    off = nbase
    for ci, cname in enumerate(COEFS[order]):
        a = ACC_OF[order][ci]
        out = enc.outs[off + ci]
        for k in range(nm):
            mean = sym.cscale(sym.csum(sums[a][k]), orc.fl(Fraction(1, M)))
            doc = sym.cscale(mean, dt)
            ck.add(f"{tag}/{cname}/complex-mean/{k}", sym.equal_goal(out[0, k], doc), pre, family=f"{fam}/coefficient=dt*complex-mean", replay=_coef_replay(order, M, cname, k), meta={"order": order, "coef": cname})
    # twin: a coefficient with a wrong weight must be refutable
    out = enc.outs[off]
    mean = sym.cscale(sym.csum(sums[ACC_OF[order][0]][0]), orc.fl(Fraction(1, M)))
    ck.add(f"{tag}/twin", sym.equal_goal(out[0, 0], sym.cscale(mean, sym.rmul(orc.fl(2), dt))), pre + [dt > 0], family=f"{fam}/twin", expect="sat")


def _true_coefs(order, z, dt):
    """exact phi-combinations in high precision (replay oracle)"""
    import mpmath as mp

    mp.mp.dps = 50
    z = mp.mpc(z)

    def phi(k, w):
        if abs(w) < mp.mpf("1e-12"):
            return 1 / mp.factorial(k)
        s = mp.e**w
        for j in range(k):
            s -= w**j / mp.factorial(j)
        return s / w**k

    p1, p2, p3 = phi(1, z), phi(2, z), phi(3, z)
    hp = phi(1, z / 2) / 2
    a, b, c = p1 - 3 * p2 + 4 * p3, p2 - 2 * p3, 4 * p3 - p2
    d = {"_exp_term": mp.e**z, "_half_exp_term": mp.e ** (z / 2)}
    if order == 1:
        d.update(_coef_1=dt * p1)
    elif order == 2:
        d.update(_coef_1=dt * p1, _coef_2=dt * p2)
    elif order == 3:
        d.update(_coef_1=dt * hp, _coef_2=dt * p1, _coef_3=dt * a, _coef_4=dt * 4 * b, _coef_5=dt * c)
    else:
        d.update(_coef_1=dt * hp, _coef_2=dt * hp, _coef_3=dt * hp, _coef_4=dt * a, _coef_5=dt * b, _coef_6=dt * c)
    return {k: complex(v) for k, v in d.items()}


def _coef_replay(order, M, cname, k):
    """run the real constructor at the model's (dt, lambda) and compare the
    stored arrays with the exact phi-combinations (mpmath, 50 digits)."""

    def replay(model):
        def g(n, default):
            v = model.get(n)
            return float(v) if isinstance(v, Fraction) else default

        r = g("r", 1.0)
        # the model's point first; under the Ackermann abstraction a model need not be a concrete witness, so a
        # fixed list of stress points (large |Im z|, stiff, zero, left half plane) is tried next; only an input
        # that reproduces on the real constructor is reported
        points = [(g("dt", 0.5) or 0.5, complex(g(f"lam_0_{k}_re", -0.7), g(f"lam_0_{k}_im", 1.3))), (1.0, 0.3 + 9.0j), (1.0, -2.0 - 7.5j), (0.5, -0.7 + 1.3j), (0.1, 0.0 + 0.0j), (1.0, -50.0 + 0.0j), (0.25, 0.0 + 20.0j)]
        last = None
        for dt, lam in points:
            e = CLS[order](dt, jnp.asarray([[lam, lam]]), ex.nonlin_fun.ZeroNonlinearFun(1, 4), num_circle_points=M, circle_radius=r)
            true = _true_coefs(order, lam * dt, dt)
            worst = None
            names = [cname] if cname else COEFS[order] + ["_exp_term"] + (["_half_exp_term"] if HAS_HALF[order] else [])
            for n in names:
                got = complex(np.asarray(getattr(e, n))[0, 0])
                exp = true[n]
                err = abs(got - exp) / (1e-30 + max(abs(exp), 1e-3))
                if worst is None or err > worst[0]:
                    worst = (err, n, got, exp)
            last = {"reproduced": bool(worst[0] > 1e-6), "detail": f"ETDRK{order} M={M} dt={dt} lambda={lam}: stored {worst[1]} = {worst[2]}, exact phi-combination {worst[3]} (rel err {worst[0]:.3g})",
                    "inputs": {"dt": dt, "lambda": [lam.real, lam.imag], "r": r}}
            if last["reproduced"]:
                return last
        return last

    return replay


def _phi_identities(ck, order):
    """documented integrand N/D equals the phi-function combination (pure algebra, z != 0)"""
    z = Cx(z3.Real("z_re"), z3.Real("z_im"))
    E = Cx(z3.Real("E_re"), z3.Real("E_im"))
    Eh = Cx(z3.Real("Eh_re"), z3.Real("Eh_im"))
    pre = [z3.Or(z.re != 0, z.im != 0)]
    fr = integrands(order, z, E, Eh)
    ph = phi_forms(order, z, E, Eh)
    for i, ((n, d), p) in enumerate(zip(fr, ph)):
        ck.add(f"phi-identity/order{order}/{i}", sym.equal_goal(sym.cdiv(n, d), p), pre, family=f"order{order}/phi-identity")
    if order in (3, 4):
        # final-stage weights sum to phi_1 (consistency of the scheme)
        p1 = sym.cdiv(sym.csub(E, C(1)), z)
        if order == 3:
            tot = sym.cadd(sym.cadd(ph[2], ph[3]), ph[4])
        else:
            tot = sym.cadd(sym.cadd(ph[1], sym.cmul(C(4), ph[2])), ph[3])
        ck.add(f"phi-identity/order{order}/weights-sum-to-phi1", sym.equal_goal(tot, p1), pre, family=f"order{order}/phi-identity")


# ---------------------------------------------------------------------------
# stage formulas with an opaque nonlinear term
# ---------------------------------------------------------------------------


def _stages(ck, order):
    tag = f"stages/order{order}"
    shape = (1, 3)
    names = ["_exp_term"] + (["_half_exp_term"] if HAS_HALF[order] else []) + COEFS[order]
    ins = [In(n.strip("_"), shape, "complex") for n in names] + [In("uh", shape, "complex")]

    def f(*args):
        leaves, uh = args[:-1], args[-1]
        e = CLS[order](0.1, jnp.zeros(shape, jnp.complex128), lambda u: uf("N", u))
        for n, v in zip(names, leaves):
            e = eqx.tree_at(lambda t, n=n: getattr(t, n), e, v)
        return e.step_fourier(uh)

    enc = Encoded(f, ins, tag=f"st{order}")
    P = {n: i.sym for n, i in zip(names, ins)}
    uh = ins[-1].sym
    code_calls = enc.interp.uf_calls  # (name, [arg], [out])
    state = {"i": 0}
    mul = lambda a, b: np.vectorize(lambda x, y: sym.cmul(sym.asc(x), sym.asc(y)), otypes=[object])(a, b)
    add = lambda a, b: np.vectorize(lambda x, y: sym.cadd(sym.asc(x), sym.asc(y)), otypes=[object])(a, b)
    sub = lambda a, b: np.vectorize(lambda x, y: sym.csub(sym.asc(x), sym.asc(y)), otypes=[object])(a, b)
    two = lambda a: np.vectorize(lambda x: sym.cscale(sym.asc(x), orc.fl(2)), otypes=[object])(a)

    def Nf(x):
        """oracle-side call of the opaque nonlinear term: staged congruence"""
        i = state["i"]
        state["i"] += 1
        if i >= len(code_calls):
            raise RuntimeError(f"{tag}: code evaluates the nonlinear term {len(code_calls)} times, scheme needs more")
        _, (carg,), (cout,) = code_calls[i]
        for c in np.ndindex(x.shape):
            ck.add(f"{tag}/stage-arg/{i}/{'_'.join(map(str, c))}", sym.equal_goal(carg[c], x[c]), [], family=f"order{order}/stage-argument")
        return cout

    E, Eh = P["_exp_term"], P.get("_half_exp_term")
    if order == 1:
        out = add(mul(E, uh), mul(P["_coef_1"], Nf(uh)))
    elif order == 2:
        n0 = Nf(uh)
        a = add(mul(E, uh), mul(P["_coef_1"], n0))
        out = add(a, mul(P["_coef_2"], sub(Nf(a), n0)))
    elif order == 3:
        n0 = Nf(uh)
        a = add(mul(Eh, uh), mul(P["_coef_1"], n0))
        na = Nf(a)
        b = add(mul(E, uh), mul(P["_coef_2"], sub(two(na), n0)))
        nb = Nf(b)
        out = add(add(add(mul(E, uh), mul(P["_coef_3"], n0)), mul(P["_coef_4"], na)), mul(P["_coef_5"], nb))
    else:
        n0 = Nf(uh)
        a = add(mul(Eh, uh), mul(P["_coef_1"], n0))
        na = Nf(a)
        b = add(mul(Eh, uh), mul(P["_coef_2"], na))
        nb = Nf(b)
        c = add(mul(Eh, a), mul(P["_coef_3"], sub(two(nb), n0)))
        nc = Nf(c)
        out = add(add(add(mul(E, uh), mul(P["_coef_4"], n0)), mul(P["_coef_5"], two(add(na, nb)))), mul(P["_coef_6"], nc))
    if state["i"] != len(code_calls):
        ck.add(f"{tag}/number-of-nonlinear-evaluations", False, [], family=f"order{order}/stage-argument", replay=_stage_replay(order, names), meta={"structural": True})
    for c in np.ndindex(shape):
        ck.add(f"{tag}/update/{'_'.join(map(str, c))}", sym.equal_goal(enc.outs[0][c], out[c]), [], family=f"order{order}/update", replay=_stage_replay(order, names))
    ck.add(f"{tag}/twin", sym.equal_goal(enc.outs[0][0, 0], sym.cadd(sym.asc(out[0, 0]), C(1))), [], family=f"order{order}/stage-twin", expect="sat")


def _stage_replay(order, names):
    """concrete replay: random coefficient arrays and a concrete quadratic
    nonlinear term through the real step_fourier vs. the scheme in numpy"""

    def replay(model):
        rng = np.random.default_rng(0)
        shape = (1, 3)
        vals = {n: rng.normal(size=shape) + 1j * rng.normal(size=shape) for n in names}
        uh = rng.normal(size=shape) + 1j * rng.normal(size=shape)
        Nl = lambda u: 0.3 * u * u + (0.1 - 0.2j) * u + 0.05
        e = CLS[order](0.1, jnp.zeros(shape, jnp.complex128), Nl)
        for n in names:
            e = eqx.tree_at(lambda t, n=n: getattr(t, n), e, jnp.asarray(vals[n]))
        got = np.asarray(e.step_fourier(jnp.asarray(uh)))
        E, Eh = vals["_exp_term"], vals.get("_half_exp_term")
        c = lambda i: vals[f"_coef_{i}"]
        n0 = Nl(uh)
        if order == 1:
            exp = E * uh + c(1) * n0
        elif order == 2:
            a = E * uh + c(1) * n0
            exp = a + c(2) * (Nl(a) - n0)
        elif order == 3:
            a = Eh * uh + c(1) * n0
            b = E * uh + c(2) * (2 * Nl(a) - n0)
            exp = E * uh + c(3) * n0 + c(4) * Nl(a) + c(5) * Nl(b)
        else:
            a = Eh * uh + c(1) * n0
            b = Eh * uh + c(2) * Nl(a)
            cc = Eh * a + c(3) * (2 * Nl(b) - n0)
            exp = E * uh + c(4) * n0 + 2 * c(5) * (Nl(a) + Nl(b)) + c(6) * Nl(cc)
        err = float(np.max(np.abs(got - exp)))
        return {"reproduced": err > 1e-9, "detail": f"ETDRK{order}.step_fourier differs from the Cox-Matthews update by {err:.3g} on a random instance"}

    return replay


# ---------------------------------------------------------------------------


def _dispatch(ck):
    """BaseStepper(order=p) builds ETDRKp (static inspection of real objects)"""
    for order in (0, 1, 2, 3, 4):
        want = {0: ex.etdrk.ETDRK0, **CLS}[order]
        for nm, mk in [
            ("Burgers", lambda o: ex.stepper.Burgers(1, 1.0, 8, 0.1, order=o)),
            ("KortewegDeVries", lambda o: ex.stepper.KortewegDeVries(1, 1.0, 8, 0.1, order=o)),
            ("KuramotoSivashinsky", lambda o: ex.stepper.KuramotoSivashinsky(1, 1.0, 8, 0.1, order=o)),
            ("GeneralNonlinearStepper", lambda o: ex.stepper.generic.GeneralNonlinearStepper(1, 1.0, 8, 0.1, order=o)),
            ("GeneralConvectionStepper", lambda o: ex.stepper.generic.GeneralConvectionStepper(1, 1.0, 8, 0.1, order=o)),
        ]:
            try:
                got = type(mk(order)._integrator)
            except Exception as ex_:  # noqa
                got = ex_
            ok = got is want
            ck.add(f"dispatch/{nm}/order{order}", bool(ok), [], family="dispatch",
                   replay=lambda m, got=got, want=want: {"reproduced": got is not want, "detail": f"integrator is {got}, documented {want}"})


def _kdv(ck):
    """complex symbol through a public stepper: the contour points of the KdV
    constructor are r*rho_j + dt*Lambda_doc(k) for every stored mode"""
    N, order = 6, 2
    ins = [In("L", (), lo=0.5, hi=2.0), In("dt", (), lo=0.01, hi=0.05), In("p", (3,), lo=0.1, hi=1.0)]

    def f(L, dt, p):
        s = ex.stepper.KortewegDeVries(1, L, N, dt, dispersivity=p[0], hyper_diffusivity=p[1], diffusivity=p[2], order=order)
        return s._integrator._exp_term, s._integrator._coef_1, s._integrator._coef_2

    enc = Encoded(f, ins, tag="kdv")
    L, dt, p = ins[0].s, ins[1].s, ins[2].sym
    W = orc.two_pi_over(L)
    roots = np.asarray(ex.etdrk.roots_of_unity(16))
    calls = enc.interp.calls["exp"]
    assert len(calls) == 17
    for idx, m in orc.stored_modes(1, N):
        # u_t + disp u_xxx - nu u_xx + hyp u_xxxx = ... ; documented symbol:
        # Lambda = nu (ik)^2 - disp (ik)^3 - hyp (ik)^4
        lam = orc.csum([orc.cscale(orc.ik_pow(W, m[0], 2), p[2]), orc.cscale(orc.ik_pow(W, m[0], 3), sym.rneg(p[0])), orc.cscale(orc.ik_pow(W, m[0], 4), sym.rneg(p[1]))])
        z = orc.cscale(lam, dt)
        ck.add(f"kdv/exp-arg/{idx[0]}", sym.equal_goal(sym.asc(calls[0]["arg"][(0,) + idx]), z), [L > 0], family="kdv/symbol")
        for j in (0, 5, 15):
            rho = Cx(sym.from_native(float(roots[j].real)), sym.from_native(float(roots[j].imag)))
            ck.add(f"kdv/contour-point/{j}/{idx[0]}", sym.equal_goal(sym.asc(calls[1 + j]["arg"][(0,) + idx]), sym.cadd(rho, z)), [L > 0], family="kdv/contour-point")


def _roots_report(ck):
    import cmath

    worst = 0.0
    for M in (8, 16, 32):
        r = np.asarray(ex.etdrk.roots_of_unity(M))
        for j in range(M):
            worst = max(worst, abs(complex(r[j]) - cmath.exp(2j * cmath.pi * (j + 0.5) / M)))
    ck.extra["contour_roots_max_abs_deviation_from_true_roots"] = worst
    ck.add("roots/half-offset-roots-of-unity", bool(worst < 1e-12), [], family="roots",
           replay=lambda m: {"reproduced": True, "detail": f"roots_of_unity deviates from exp(2 pi i (j-1/2)/M) by {worst}"})
