"""Driver: ./check <ID> [--tier quick|thorough] [--replay file]"""
import argparse
import importlib
import json
import os
import sys
import time

import jax

jax.config.update("jax_enable_x64", True)

from vlib.harness import EXIT_HARNESS, Check, _model, log  # noqa: E402


def main():
    ap = argparse.ArgumentParser()
    ap.add_argument("pid")
    ap.add_argument("--tier", default=os.environ.get("VERIF_TIER", "quick"))
    ap.add_argument("--replay", default=None)
    ap.add_argument("--only", default=None, help="substring filter on instance names (debugging)")
    a = ap.parse_args()
    seed = int(os.environ.get("VERIF_SEED", "0") or 0)
    pid = a.pid.upper()
    mod = importlib.import_module(f"checks.{pid.lower()}")
    ck = Check(pid, tier=a.tier if a.tier in ("quick", "thorough") else "quick", seed=seed)
    ck.only = a.only
    try:
        mod.build(ck)
    except Exception as ex:  # encoding failure is a harness error, never a violation
        import traceback

        traceback.print_exc()
        ck.error(f"build failed: {ex!r}")
        ck._evidence(ck.obls, 0, 0.0)
        sys.exit(EXIT_HARNESS)
    if a.replay:
        data = json.load(open(a.replay))
        name = data["obligation"]
        o = next((o for o in ck.obls if o.name == name), None)
        if o is None or o.replay is None:
            log(f"replay: obligation {name} not found in the current encoding")
            sys.exit(EXIT_HARNESS)
        rr = o.replay(_model({"model": data.get("model", {})}))
        log(json.dumps({k: v for k, v in rr.items() if k != "inputs"}, default=str)[:2000])
        if rr.get("reproduced"):
            log(f"VIOLATION property={pid} replay={a.replay}")
            sys.exit(1)
        log("replay: not reproduced on the current tree")
        sys.exit(0)
    sys.exit(ck.run())


if __name__ == "__main__":
    main()
