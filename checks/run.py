"""Driver: ./check <ID> [--tier quick|thorough] [--replay file]"""
import argparse
import importlib
import json
import os
import sys
import time

import jax

jax.config.update("jax_enable_x64", True)

from vlib.harness import EXIT_HARNESS, Check, _model, log  # noqa: E402


def _isolate_parts(mod):
    """every part function `_name(ck, ...)` of a check module runs in isolation: an encoding failure in one part
    (the code no longer has the structure that part expects) is a harness error for that part only; the obligations
    of all other parts are still built and decided, so a violation elsewhere is still reported"""
    import functools
    import inspect
    import traceback

    from vlib.harness import Check as _Check

    for nm, fn in list(vars(mod).items()):
        if not (inspect.isfunction(fn) and fn.__module__ == mod.__name__ and nm != "build"):
            continue
        params = list(inspect.signature(fn).parameters)
        if not params or params[0] != "ck":
            continue

        def wrapped(ck, *args, __fn=fn, __nm=nm, **kw):
            try:
                return __fn(ck, *args, **kw)
            except Exception as ex:
                lab = ", ".join(repr(x)[:30] for x in args if isinstance(x, (int, str, tuple)))
                if type(ex).__name__ == "OutOfDate":
                    # E2: the scalar kernel no longer has a shape the AST extractor translates: that part is not decided for
                    # this tree (inconclusive, never a pass); the E1 obligations at concrete N still decide the property
                    ck.add_direct(f"E2/{__nm.strip('_')}/encoding", "unknown", family="E2 scalar kernels (symbolic N)", detail=f"E2 extractor does not recognise the current source: {ex}")
                    return None
                traceback.print_exc()
                ck.error(f"part {__nm}({lab}) could not be encoded: {ex!r}"[:500])
                return None

        setattr(mod, nm, functools.wraps(fn)(wrapped))


def main():
    ap = argparse.ArgumentParser()
    ap.add_argument("pid")
    ap.add_argument("--tier", default=os.environ.get("VERIF_TIER", "quick"))
    ap.add_argument("--replay", default=None)
    ap.add_argument("--only", default=None, help="substring filter on instance names (debugging)")
    a = ap.parse_args()
    seed = int(os.environ.get("VERIF_SEED", "0") or 0)
    pid = a.pid.upper()
    mod = importlib.import_module(f"checks.{pid.lower()}")
    ck = Check(pid, tier=a.tier if a.tier in ("quick", "thorough") else "quick", seed=seed)
    ck.only = a.only
    _isolate_parts(mod)
    try:
        mod.build(ck)
    except Exception as ex:  # encoding failure is a harness error, never a violation; obligations already built are still decided
        import traceback

        traceback.print_exc()
        ck.error(f"build failed: {ex!r}")
    if a.replay:
        data = json.load(open(a.replay))
        name = data["obligation"]
        o = next((o for o in ck.obls if o.name == name), None)
        if o is None:
            log(f"replay: obligation {name} not found in the current encoding")
            sys.exit(EXIT_HARNESS)
        from vlib import harness as _h

        m = _model({"model": data.get("model", {})})
        rr = o.replay(m) if o.replay is not None else {"reproduced": False, "detail": "no specific replay"}
        if not rr.get("reproduced") and _h.DEFAULT_REPLAY is not None and o.kind == "solver":
            rr = _h.DEFAULT_REPLAY(o)(m)
        log(json.dumps({k: v for k, v in rr.items() if k != "inputs"}, default=str)[:2000])
        if rr.get("reproduced"):
            log(f"VIOLATION property={pid} replay={a.replay}")
            sys.exit(1)
        log("replay: not reproduced on the current tree")
        sys.exit(0)
    sys.exit(ck.run())


if __name__ == "__main__":
    main()
