"""C03 -- nonlinear terms equal the alias-free projection of the documented operator.

E1: the real nonlinear-function classes are traced with L, scales and a full
(Nyquist-content included) Hermitian spectrum symbolic; the oracle is the
documented operator evaluated by exact convolution over integer wavenumbers on
the band |k|_inf <= K(N, fraction), zero outside.  E2 (all N <= 4096): the
float cut-off decision in BaseNonlinearFun/low_pass_filter_mask equals the
exact rational one and (p+1) K < N.
"""
from __future__ import annotations

import itertools
from fractions import Fraction

import numpy as np
import z3

import exponax as ex
import jax.numpy as jnp

from vlib import oracle as orc
from vlib import sym
from vlib.eqinst import Encoded, In
from vlib.jx2smt import hermitian_spectrum
from vlib.sym import Cx, ONE, ZERO

NF = ex.nonlin_fun
F23 = Fraction(2, 3)
F12 = Fraction(1, 2)


def _do(L, D, N):
    return ex.spectral.build_derivative_operator(D, L, N)


def _minus(b):
    return orc.b_scale(b, orc.fl(-1))


def _grad_sq(u, W, D):
    return orc.b_add(*[orc.b_mul(orc.b_deriv(u, d, W), orc.b_deriv(u, d, W)) for d in range(D)])


def _drop_mean(b, D):
    return {m: v for m, v in b.items() if any(m)}


def catalogue(D, N):
    """(name, channels, fraction, param Ins, make(L,*p), oracle(bands, W, *p)->bands per out channel)"""
    out = []
    half = orc.fl(Fraction(1, 2))
    # --- convection, four forms
    def conv_mc_cons(u, W, b):
        res = []
        for c in range(D):
            t = orc.b_add(*[orc.b_deriv(orc.b_mul(u[c], u[j]), j, W) for j in range(D)])
            res.append(orc.b_scale(t, sym.rneg(sym.rmul(half, b[()]))))
        return res

    def conv_mc_noncons(u, W, b):
        res = []
        for c in range(D):
            t = orc.b_add(*[orc.b_mul(u[j], orc.b_deriv(u[c], j, W)) for j in range(D)])
            res.append(orc.b_scale(t, sym.rneg(b[()])))
        return res

    def conv_sc_cons(u, W, b):
        sq = orc.b_mul(u[0], u[0])
        t = orc.b_add(*[orc.b_deriv(sq, d, W) for d in range(D)])
        return [orc.b_scale(t, sym.rneg(sym.rmul(half, b[()])))]

    def conv_sc_noncons(u, W, b):
        g = orc.b_add(*[orc.b_deriv(u[0], d, W) for d in range(D)])
        return [orc.b_scale(orc.b_mul(u[0], g), sym.rneg(b[()]))]

    for nm, C, sc, cons, orac in [("conv/multi/cons", D, False, True, conv_mc_cons), ("conv/multi/noncons", D, False, False, conv_mc_noncons),
                                  ("conv/single/cons", 1, True, True, conv_sc_cons), ("conv/single/noncons", 1, True, False, conv_sc_noncons)]:
        out.append((nm, C, F23, [In("b", ())], lambda L, b, sc=sc, cons=cons: NF.ConvectionNonlinearFun(D, N, derivative_operator=_do(L, D, N), dealiasing_fraction=2 / 3, scale=b, single_channel=sc, conservative=cons), orac))

    # --- gradient norm
    def gn(fix):
        def o(u, W, b):
            t = _grad_sq(u[0], W, D)
            if fix:
                t = _drop_mean(t, D)
            return [orc.b_scale(t, sym.rneg(sym.rmul(half, b[()])))]
        return o

    for fix in (True, False):
        out.append((f"gradnorm/fix={fix}", 1, F23, [In("b", ())], lambda L, b, fix=fix: NF.GradientNormNonlinearFun(D, N, derivative_operator=_do(L, D, N), dealiasing_fraction=2 / 3, zero_mode_fix=fix, scale=b), gn(fix)))

    # --- polynomial (quadratic with 2/3, cubic with 1/2)
    def poly(deg):
        def o(u, W, c):
            acc = orc.b_const(D, Cx(c[0], ZERO))
            pw = u[0]
            for k in range(1, deg + 1):
                acc = orc.b_add(acc, orc.b_scale(pw, c[k]))
                if k < deg:
                    pw = orc.b_mul(pw, u[0])
            return [acc]
        return o

    out.append(("polynomial/deg2", 1, F23, [In("c", (3,))], lambda L, c: NF.PolynomialNonlinearFun(D, N, dealiasing_fraction=2 / 3, coefficients=[c[0], c[1], c[2]]), poly(2)))
    out.append(("polynomial/deg3", 1, F12, [In("c", (4,))], lambda L, c: NF.PolynomialNonlinearFun(D, N, dealiasing_fraction=1 / 2, coefficients=[c[0], c[1], c[2], c[3]]), poly(3)))

    # --- general nonlinear: b0 u^2 + b1/2 (1.grad)(u^2) + b2/2 |grad u|^2 (mean removed)
    def general(u, W, b):
        sq = orc.b_mul(u[0], u[0])
        t0 = orc.b_scale(sq, b[0])
        t1 = orc.b_scale(orc.b_add(*[orc.b_deriv(sq, d, W) for d in range(D)]), sym.rmul(half, b[1]))
        t2 = orc.b_scale(_drop_mean(_grad_sq(u[0], W, D), D), sym.rmul(half, b[2]))
        return [orc.b_add(t0, t1, t2)]

    out.append(("general", 1, F23, [In("b", (3,))], lambda L, b: NF.GeneralNonlinearFun(D, N, derivative_operator=_do(L, D, N), dealiasing_fraction=2 / 3, scale_list=(b[0], b[1], b[2])), general))

    if D == 2:
        # streamfunction-vorticity convection: -b (psi_y w_x - psi_x w_y), psi = inverse Laplacian of w
        def vort(u, W, b):
            w = u[0]
            psi = orc.b_laplace_inv(w, W)
            t = orc.b_add(orc.b_mul(orc.b_deriv(psi, 1, W), orc.b_deriv(w, 0, W)), _minus(orc.b_mul(orc.b_deriv(psi, 0, W), orc.b_deriv(w, 1, W))))
            return [orc.b_scale(t, sym.rneg(b[()]))]

        out.append(("vorticity2d", 1, F23, [In("b", ())], lambda L, b: NF.VorticityConvection2d(D, N, convection_scale=b, derivative_operator=_do(L, D, N), dealiasing_fraction=2 / 3), vort))
    if D == 3:
        def cross(a, b):
            return [orc.b_add(orc.b_mul(a[1], b[2]), _minus(orc.b_mul(a[2], b[1]))), orc.b_add(orc.b_mul(a[2], b[0]), _minus(orc.b_mul(a[0], b[2]))), orc.b_add(orc.b_mul(a[0], b[1]), _minus(orc.b_mul(a[1], b[0])))]

        def proj(u, W):
            # omega = curl u
            d = lambda f, j: orc.b_deriv(f, j, W)
            om = [orc.b_add(d(u[2], 1), _minus(d(u[1], 2))), orc.b_add(d(u[0], 2), _minus(d(u[2], 0))), orc.b_add(d(u[1], 0), _minus(d(u[0], 1)))]
            cv = cross(u, om)
            # Leray projection P = I - k k^T / |k|^2 (identity on the mean)
            res = [dict() for _ in range(3)]
            keys = set().union(*[c.keys() for c in cv])
            for m in keys:
                vec = [cv[c].get(m, Cx(ZERO, ZERO)) for c in range(3)]
                k2 = sum(x * x for x in m)
                if k2 == 0:
                    for c in range(3):
                        res[c][m] = vec[c]
                    continue
                kd = orc.csum([sym.cscale(vec[c], orc.fl(m[c])) for c in range(3)])
                for c in range(3):
                    res[c][m] = sym.csub(vec[c], sym.cscale(kd, orc.fl(Fraction(m[c], k2))))
            return res

        out.append(("projected3d", 3, F23, [], lambda L: NF.ProjectedConvection3d(D, N, derivative_operator=_do(L, D, N)), proj))

    # --- reaction nonlinearities (cubic: 1/2 rule)
    from exponax.stepper.reaction._cahn_hilliard import CahnHilliardNonlinearFun
    from exponax.stepper.reaction._gray_scott import GrayScottNonlinearFun

    def ch(u, W, s):
        cube = orc.b_mul(orc.b_mul(u[0], u[0]), u[0])
        return [orc.b_scale(orc.b_laplace(cube, W), s[()])]

    out.append(("cahn-hilliard", 1, F12, [In("s", ())], lambda L, s: CahnHilliardNonlinearFun(D, N, derivative_operator=_do(L, D, N), scale=s, dealiasing_fraction=1 / 2), ch))

    def gs(u, W, fk):
        f, k = fk[0], fk[1]
        uvv = orc.b_mul(orc.b_mul(u[0], u[1]), u[1])
        a = orc.b_add(orc.b_const(D, Cx(f, ZERO)), orc.b_scale(u[0], sym.rneg(f)), _minus(uvv))
        b = orc.b_add(orc.b_scale(u[1], sym.rneg(sym.radd(f, k))), uvv)
        return [a, b]

    out.append(("gray-scott", 2, F12, [In("fk", (2,))], lambda L, fk: GrayScottNonlinearFun(D, N, dealiasing_fraction=1 / 2, feed_rate=fk[0], kill_rate=fk[1]), gs))
    return out


def build(ck):
    from exponax.stepper.reaction._cahn_hilliard import CahnHilliardNonlinearFun
    from exponax.stepper.reaction._gray_scott import GrayScottNonlinearFun

    ck.encode_fn(NF.BaseNonlinearFun, NF.ConvectionNonlinearFun, NF.GradientNormNonlinearFun, NF.PolynomialNonlinearFun, NF.GeneralNonlinearFun, NF.VorticityConvection2d,
                 NF.ProjectedConvection3d, NF.Leray, CahnHilliardNonlinearFun, GrayScottNonlinearFun, ex.spectral.low_pass_filter_mask, ex.spectral.build_wavenumbers, ex.fft, ex.ifft,
                 ex.spectral.build_derivative_operator, ex.spectral.build_laplace_operator)
    quick = [(1, 6), (1, 8), (1, 7), (2, 6), (3, 6)]
    thorough = [(1, 6), (1, 7), (1, 8), (1, 9), (1, 10), (1, 12), (1, 5), (2, 6), (2, 8), (2, 7), (3, 6)]
    grids = thorough if ck.tier == "thorough" else quick
    ck.bound("E1 grids (D,N): " + ", ".join(map(str, grids)) + "; dealiasing fractions 2/3 (quadratic terms) and 1/2 (cubic terms); all real L>0, scales, coefficients; full Hermitian spectrum symbolic (content up to Nyquist)")
    ck.bound("E2 cut-off arithmetic: all N in [1,4096], float64 and float32 wavenumber arrays")
    ck.assume("input spectrum is the rfft of a real field (Hermitian-consistent on the self-conjugate planes)")
    ck.assume("real arithmetic for array kernels")
    ck.assume("2D vorticity convection is read as -b (psi_y w_x - psi_x w_y), psi = inverse Laplacian of w (the docstring's '[1,-1] (.) grad' shorthand taken as the rotated gradient)")
    ck.out_of_scope("grid sizes not listed (E1); rounding")
    for D, N in grids:
        for name, C, frac, pins, make, orac in catalogue(D, N):
            tag = f"{name}/D{D}N{N}"
            o = getattr(ck, "only", None)
            if o and o not in tag:
                continue
            if D == 3 and name not in ("projected3d", "conv/multi/cons", "conv/single/cons", "polynomial/deg2"):
                continue  # 3D: the vector-calculus terms; scalar terms are dimension-generic code
            _instance(ck, tag, name, D, N, C, frac, pins, make, orac)
    _cutoff_all_N(ck)


def _instance(ck, tag, name, D, N, C, frac, pins, make, orac):
    K = orc.retained_band(N, frac)
    uh = hermitian_spectrum("u", N, D, C)
    spec = (C,) + orc.spectrum_shape(D, N)
    ins = [In("L", (), lo=0.5, hi=2.0)] + [In(p.name, p.shape, lo=-1.0, hi=1.0) for p in pins] + [In("uh", spec, "complex", sym_arr=uh)]

    def f(L, *rest):
        return make(L, *rest[:-1])(rest[-1])

    enc = Encoded(f, ins, tag=tag)
    enc.validate(ck, npoints=1, what=tag, max_components=12)
    L = ins[0].s
    W = orc.two_pi_over(L)
    ps = [i.sym for i in ins[1:-1]]
    bands = [orc.band_of(uh[c], N, K) if K >= 0 else {} for c in range(C)]
    res = orac(bands, W, *ps)
    oracle = np.stack([orc.b_to_stored(r, D, N, K) for r in res], axis=0)
    pre = [L > 0]
    enc.compare(ck, tag, 0, oracle, pre, family=name, timeout=120 if D < 3 else 240)
    # reachability twin: doubling the documented term at a retained non-zero mode must be refutable
    cand = [(c,) + idx for c in range(oracle.shape[0]) for idx, m in orc.stored_modes(D, N) if max(abs(x) for x in m) <= K and not sym.is_conc(oracle[(c,) + idx])]
    if cand:
        goals = [sym.equal_goal(enc.outs[0][i], sym.cscale(oracle[i], orc.fl(2))) for i in cand[:: max(1, len(cand) // 6)]]
        goals = [g for g in goals if not isinstance(g, bool)]
        if goals:
            ck.add(f"{tag}/twin", z3.And(*goals), pre, family=f"{name}/twin", expect="sat", timeout=120)


# ---------------------------------------------------------------------------
# E2: cut-off arithmetic for every N (QF_FP), from the AST of the current source
# ---------------------------------------------------------------------------


def _cutoff_all_N(ck):
    from vlib import pyk

    try:
        pyk.cutoff_obligations(ck)
    except (pyk.OutOfDate, RuntimeError) as ex_:
        # the scalar kernel no longer has a shape the extractor knows: the all-N part is INCONCLUSIVE for this tree (reported
        # as such in the log and the evidence, never as a pass); the E1 obligations at concrete N still decide the property
        ck.add_direct("E2/cutoff-decision/encoding", "unknown", family="E2 cut-off kernel (symbolic N)", detail=f"E2 extractor does not recognise the current source: {ex_}")
