"""C06 -- results are invariant under jit, vmap and scan composition.

Solver-decided part: the batched program is just another jaxpr.
  (1) make_jaxpr(jax.vmap(stepper))(U) for every exported stepper class
      (smallest dimension it supports, N=6, batch 2, symbolic U): member i of the
      batched result equals the single-state program on U[i] -- which also shows
      member i depends on member i only.
  (2) eqx.filter_vmap over constructor parameters (symbolic parameter batch):
      member i equals the stepper built from parameter i (exp arguments compared
      per mode, results through the shared Ackermann symbols).
  (3) vmap(rollout(stepper, n)) = swapaxes(rollout(vmap(stepper), n), 0, 1).
Static part (reported as such, not a solver verdict): jit == eager reduces in
JAX to "no Python branch on traced data": every stepper class is traced with its
call abstract; classes whose constructors are traced with abstract parameters
are listed; failures are replayed on the real API.
"""
from __future__ import annotations

import os

import inspect

import numpy as np
import z3

import equinox as eqx
import exponax as ex
import jax
import jax.numpy as jnp

from checks.c20 import _exported_steppers
from vlib import oracle as orc
from vlib import sym
from vlib.eqinst import Encoded, In
from vlib.sym import Cx, ONE, ZERO

S = ex.stepper
G = ex.stepper.generic
N = 6
B = 2


def _make(cls, order=None):
    params = list(inspect.signature(cls.__init__).parameters)
    kw = {}
    if order is not None and "order" in params:
        kw["order"] = order
    for D in (1, 2, 3):
        try:
            if "domain_extent" in params:
                return D, cls(D, 1.0, N, 0.01, **kw)
            return D, cls(D, N, **kw)
        except (ValueError, TypeError):
            continue
    return None, None


def build(ck):
    ck.encode_fn(ex.BaseStepper.__call__, ex.BaseStepper.step, ex.rollout, ex.repeat, S.Advection, S.Diffusion, S.AdvectionDiffusion, S.Dispersion, G.GeneralVorticityConvectionStepper)
    classes = _exported_steppers()
    ck.bound(f"every exported stepper class ({len(classes)}), smallest supported D, N={N}, batch size {B}, ETDRK order 1 (order 2 in thorough) where the class has an order; rollout n=2")
    ck.assume("real arithmetic; steppers are constructed concretely (their coefficient arrays are data shared by both sides) for (1),(3); XLA fusion / reassociation differences between jit and eager are float-level and outside the claim")
    only = getattr(ck, "only", None)
    want = lambda t: (not only) or only in t
    order = 1 if ck.tier == "quick" else 2
    for nm, cls in classes:
        if want(f"vmap/{nm}"):
            _vmap_states(ck, nm, cls, order)
    if want("twin"):
        _twin(ck)
    if want("params"):
        _vmap_params(ck)
        _params_concrete(ck)
    if want("compiled-then-eager"):
        _trace_then_eager(ck)
    if want("rollout"):
        _vmap_rollout(ck)
    if want("isolation"):
        _member_isolation(ck)
    if want("static"):
        _static_jit(ck, classes)


def _vmap_states(ck, nm, cls, order):
    D, st = _make(cls, order)
    if st is None:
        ck.add(f"vmap/{nm}/instantiable", False, [], family="vmap over states", replay=lambda m: {"reproduced": True, "detail": f"{nm} cannot be instantiated"})
        return
    shape = (st.num_channels,) + (N,) * D
    if D == 3 and ck.tier != "thorough":
        # 3D classes: the batched jaxpr is checked structurally on a thinner instance (one obligation per 9th component)
        stride = 9
    else:
        stride = 1
    ins = [In("U", (B,) + shape)]
    try:
        enc = Encoded(lambda U: jax.vmap(st)(U), ins, tag="vb")
    except Exception as ex_:  # noqa
        msg = f"{type(ex_).__name__}: {str(ex_)[:160]}"
        ck.add(f"vmap/{nm}/traces", False, [], family="vmap over states", replay=lambda m, msg=msg: _vmap_fail_replay(st, shape, msg))
        return
    U = ins[0].sym
    single = Encoded(lambda u: st(u), [In("u", shape, sym_arr=U[0])], tag="vs")
    facts = enc.interp.sound_facts() + single.interp.sound_facts()
    for b in range(B):
        s_b = single if b == 0 else single.clone_with([In("u", shape, sym_arr=U[b])], tag="vs")
        # both sides are the same program up to batching, so one conjunction per member is cheap to decide and
        # is serialised once (per-component queries would re-serialise the whole FFT DAG N^D times)
        goals = [sym.equal_goal(enc.outs[0][(b,) + i], s_b.outs[0][i]) for i in np.ndindex(shape)]
        if any(g is False for g in goals):
            ck.add(f"vmap/{nm}/member{b}", False, [], family="vmap over states: member i = single-state program on U[i]", replay=_vmap_replay(st, shape))
            continue
        goals = [g for g in goals if not isinstance(g, bool)]
        ck.add(f"vmap/{nm}/member{b}", z3.And(*goals) if goals else True, facts + s_b.interp.sound_facts(), family="vmap over states: member i = single-state program on U[i]",
               timeout=180, replay=_vmap_replay(st, shape))


def _twin(ck):
    """reachability twin: member 0 of the batched result is NOT the single-state program on U[1]"""
    st = S.Burgers(1, 1.0, N, 0.01, order=1)
    shape = (1, N)
    ins = [In("U", (B,) + shape)]
    enc = Encoded(lambda U: jax.vmap(st)(U), ins, tag="tw")
    single = Encoded(lambda u: st(u), [In("u", shape, sym_arr=ins[0].sym[1])], tag="tws")
    ck.add("vmap/twin", sym.equal_goal(enc.outs[0][0, 0, 1], single.outs[0][0, 1]), [], family="C06/twin", expect="sat")


def _vmap_replay(st, shape):
    def replay(model):
        rng = np.random.default_rng(0)
        U = jnp.asarray(rng.normal(size=(3,) + shape)) * 0.1
        a = jax.vmap(st)(U)
        b = jnp.stack([st(U[i]) for i in range(3)])
        c = eqx.filter_jit(st)(U[0])
        e = float(jnp.max(jnp.abs(a - b)))
        e2 = float(jnp.max(jnp.abs(c - b[0])))
        return {"reproduced": max(e, e2) > 1e-9, "detail": f"{type(st).__name__}: vmap vs loop {e:.3g}; filter_jit vs eager {e2:.3g}"}

    return replay


def _vmap_fail_replay(st, shape, msg):
    try:
        jax.vmap(st)(jnp.zeros((2,) + shape))
        return {"reproduced": False, "detail": "tracing failed but the concrete call works: " + msg}
    except Exception as ex_:  # noqa
        return {"reproduced": True, "detail": f"jax.vmap({type(st).__name__}) raises {type(ex_).__name__}: {str(ex_)[:200]}"}


def _vmap_params(ck):
    """eqx.filter_vmap(make)(params) then apply member-wise: equals make(params[i])(U[i])"""
    fam = "filter_vmap over constructor parameters: member i = stepper built from parameter i"
    D = 1
    cases = [
        ("Advection/scalar-velocity", lambda p: S.Advection(D, 1.0, N, 0.1, velocity=p), ()),
        ("Diffusion/scalar-diffusivity", lambda p: S.Diffusion(D, 1.0, N, 0.1, diffusivity=p), ()),
        ("Dispersion/scalar-dispersivity", lambda p: S.Dispersion(D, 1.0, N, 0.1, dispersivity=p), ()),
        ("AdvectionDiffusion/scalars", lambda p: S.AdvectionDiffusion(D, 1.0, N, 0.1, velocity=p, diffusivity=p), ()),
        ("Diffusion/vector-diffusivity", lambda p: S.Diffusion(D, 1.0, N, 0.1, diffusivity=p), (D,)),
        ("HyperDiffusion", lambda p: S.HyperDiffusion(D, 1.0, N, 0.1, hyper_diffusivity=p), ()),
        ("Burgers/diffusivity", lambda p: S.Burgers(D, 1.0, N, 0.1, diffusivity=p, order=1), ()),
        ("KortewegDeVries/dispersivity", lambda p: S.KortewegDeVries(D, 1.0, N, 0.1, dispersivity=p, order=1), ()),
        ("GeneralLinearStepper/coefficients", lambda p: G.GeneralLinearStepper(D, 1.0, N, 0.1, linear_coefficients=(0.0, p[0], p[1])), (2,)),
        ("GeneralVorticityConvectionStepper/injection_scale", lambda p: G.GeneralVorticityConvectionStepper(2, 1.0, N, 0.1, injection_scale=p, injection_mode=1, order=1), ()),
    ]
    for nm, make, pshape in cases:
        D_ = 2 if "Vorticity" in nm else 1
        C = 1
        shape = (C,) + (N,) * D_
        ins = [In("p", (B,) + pshape, lo=0.1, hi=1.0), In("U", (B,) + shape)]

        def f(p, U, make=make):
            return eqx.filter_vmap(lambda q, u: make(q)(u))(p, U)

        try:
            enc = Encoded(f, ins, tag="pb")
        except Exception as ex_:  # noqa
            msg = f"{type(ex_).__name__}: {str(ex_)[:200]}"
            ck.add(f"params/{nm}/traces", False, [], family=fam, replay=lambda m, make=make, pshape=pshape, shape=shape, msg=msg: _param_fail_replay(make, pshape, shape, msg))
            continue
        p, U = ins[0].sym, ins[1].sym
        for b in range(B):
            single = Encoded(lambda q, u, make=make: make(q)(u), [In("q", pshape, sym_arr=p[b]), In("u", shape, sym_arr=U[b])], tag=f"ps{b}")
            # exp arguments agree per mode (batched call 0 <-> single call 0, ...)
            cb, cs = enc.interp.calls.get("exp", []), single.interp.calls.get("exp", [])
            facts = []
            if len(cb) != len(cs):
                ck.add(f"params/{nm}/member{b}/same-number-of-exp-calls", False, [], family=fam, replay=lambda m: {"reproduced": True, "detail": "batched and single constructors differ structurally"})
                continue
            for j, (x, y) in enumerate(zip(cb, cs)):
                xa, xo = x["arg"][b], x["out"][b]
                for i in np.ndindex(y["arg"].shape):
                    g = sym.equal_goal(sym.asc(xa[i]), sym.asc(y["arg"][i]))
                    if j < 3 or ck.tier == "thorough":
                        ck.add(f"params/{nm}/member{b}/exp-arg{j}/{'_'.join(map(str, i))}", g, [], family=fam + " (exp arguments)", timeout=120)
                    eo, so = sym.asc(xo[i]), sym.asc(y["out"][i])
                    if not (sym.is_conc(eo) or sym.is_conc(so)):
                        facts += [eo.re == so.re, eo.im == so.im]  # congruence, justified by the argument obligations
            for i in np.ndindex(shape):
                ck.add(f"params/{nm}/member{b}/out/{'_'.join(map(str, i))}", sym.equal_goal(enc.outs[0][(b,) + i], single.outs[0][i]), facts, family=fam, timeout=120)


def _concrete_cases():
    return [
        ("GeneralNonlinearStepper/nonlinear_coefficients", lambda p: G.GeneralNonlinearStepper(1, 1.0, 16, 0.01, nonlinear_coefficients=(p[0], p[1], p[2])), 3),
        ("NormalizedNonlinearStepper/coefficients", lambda p: G.NormalizedNonlinearStepper(1, 16, normalized_nonlinear_coefficients=(p[0], p[1], p[2])), 3),
        ("GeneralConvectionStepper/convection_scale", lambda p: G.GeneralConvectionStepper(1, 1.0, 16, 0.01, convection_scale=p[0]), 1),
        ("GeneralGradientNormStepper/scale", lambda p: G.GeneralGradientNormStepper(1, 1.0, 16, 0.001, gradient_norm_scale=p[0]), 1),
        ("GeneralPolynomialStepper/coefficients", lambda p: G.GeneralPolynomialStepper(1, 1.0, 16, 0.01, polynomial_coefficients=(p[0], p[1], p[2])), 3),
        ("GeneralLinearStepper/coefficients", lambda p: G.GeneralLinearStepper(1, 1.0, 16, 0.01, linear_coefficients=(p[0], p[1], p[2])), 3),
        ("Burgers/diffusivity+scale", lambda p: S.Burgers(1, 1.0, 16, 0.01, diffusivity=p[0], convection_scale=p[1]), 2),
        ("KuramotoSivashinsky/scales", lambda p: S.KuramotoSivashinsky(1, 10.0, 16, 0.01, gradient_norm_scale=p[0], second_order_scale=p[1], fourth_order_scale=p[2]), 3),
        ("FisherKPP/reactivity", lambda p: S.reaction.FisherKPP(1, 1.0, 16, 0.01, diffusivity=p[0] * 0.01, reactivity=p[1]), 2),
        ("Advection/scalar", lambda p: S.Advection(1, 1.0, 16, 0.01, velocity=p[0]), 1),
        ("Diffusion/scalar", lambda p: S.Diffusion(1, 1.0, 16, 0.01, diffusivity=p[0]), 1),
        # D = 2 (scalar parameters are expanded per axis there; mixed modes in the state)
        ("2D/Diffusion/scalar", lambda p: S.Diffusion(2, 1.0, 8, 0.01, diffusivity=p[0] * 0.1), 1),
        ("2D/Advection/scalar", lambda p: S.Advection(2, 1.0, 8, 0.01, velocity=p[0]), 1),
        ("2D/AdvectionDiffusion/scalars", lambda p: S.AdvectionDiffusion(2, 1.0, 8, 0.01, velocity=p[0], diffusivity=p[1] * 0.1), 2),
        ("2D/Dispersion/scalar", lambda p: S.Dispersion(2, 1.0, 8, 0.001, dispersivity=p[0] * 0.01), 1),
        ("2D/HyperDiffusion/scalar", lambda p: S.HyperDiffusion(2, 1.0, 8, 0.001, hyper_diffusivity=p[0] * 0.001), 1),
        ("2D/Burgers/diffusivity+scale", lambda p: S.Burgers(2, 1.0, 8, 0.01, diffusivity=p[0] * 0.1, convection_scale=p[1]), 2),
        ("2D/KuramotoSivashinsky/scales", lambda p: S.KuramotoSivashinsky(2, 10.0, 8, 0.01, gradient_norm_scale=p[0], second_order_scale=p[1], fourth_order_scale=p[2]), 3),
        ("2D/NavierStokesVorticity/diffusivity+scale+drag", lambda p: S.NavierStokesVorticity(2, 1.0, 8, 0.01, diffusivity=p[0] * 0.1, vorticity_convection_scale=p[1], drag=-p[2]), 3),
        ("2D/GeneralLinearStepper/coefficients", lambda p: G.GeneralLinearStepper(2, 1.0, 8, 0.01, linear_coefficients=(p[0], p[1], p[2] * 0.1)), 3),
        ("2D/SwiftHohenberg", lambda p: S.reaction.SwiftHohenberg(2, 10.0, 8, 0.01, reactivity=p[0], critical_number=p[1]), 2),
        ("3D/Diffusion/scalar", lambda p: S.Diffusion(3, 1.0, 4, 0.01, diffusivity=p[0] * 0.1), 1),
        # rarely swept constructor arguments (fixed sweep values, see _sweep_values)
        ("Burgers/dealiasing_fraction", lambda p: S.Burgers(1, 1.0, 16, 0.01, dealiasing_fraction=p[0]), 1),
        ("KuramotoSivashinsky/dealiasing_fraction", lambda p: S.KuramotoSivashinsky(1, 10.0, 16, 0.01, dealiasing_fraction=p[0]), 1),
        ("Burgers/domain_extent+dt", lambda p: S.Burgers(1, 1.0 + p[0], 16, 0.01 * p[1]), 2),
    ]


def _sweep_values(nm, npar, rng):
    if "dealiasing_fraction" in nm:
        return jnp.asarray([[1.0], [0.75]])
    return jnp.asarray(rng.uniform(0.2, 0.9, size=(2, npar)))


def _concrete_state(nm, make, rng, build_eagerly=True):
    """a random state of the shape the family expects.  build_eagerly=False (the compiled-first part) must not construct
    anything eagerly before the compiled sweep: the channel count is then taken from the family name (D-channel Burgers)"""
    D = int(nm[0]) if nm[:2] in ("2D", "3D") else 1
    n = {1: 16, 2: 8, 3: 4}[D]
    C = make([0.5] * 8).num_channels if build_eagerly else (D if "Burgers" in nm else 1)
    return jnp.asarray(rng.normal(size=(C,) + (n,) * D)) * 0.3


def _tte_main():
    """sub-process body of the 'compiled first, eager afterwards' part: a FRESH interpreter builds each stepper family
    inside filter_jit(filter_vmap(.)) BEFORE any eager construction, then eagerly from Python floats, then under
    filter_vmap alone; prints one JSON line per family"""
    import json

    rng = np.random.default_rng(0)
    for nm, make, npar in _concrete_cases():
        P = _sweep_values(nm, npar, rng)
        try:
            u = _concrete_state(nm, make, rng, build_eagerly=False)
            first = eqx.filter_jit(eqx.filter_vmap(lambda p: make(p)(u)))(P)
            eager = jnp.stack([make([float(x) for x in P[i]])(u) for i in range(2)])
            again = eqx.filter_vmap(lambda p: make(p)(u))(P)
            e = max(float(jnp.max(jnp.abs(first - eager))), float(jnp.max(jnp.abs(again - eager))))
            print("TTE " + json.dumps({"name": nm, "ok": bool(e < 1e-9), "detail": f"max deviation {e:.3g}"}), flush=True)
        except Exception as ex_:  # noqa
            print("TTE " + json.dumps({"name": nm, "ok": False, "detail": f"raises {type(ex_).__name__}: {str(ex_)[:200]}"}), flush=True)


def _run_tte():
    import json
    import subprocess
    import sys

    env = dict(os.environ, PYTHONPATH=os.path.dirname(os.path.dirname(os.path.abspath(ex.__file__))) + os.pathsep + os.path.dirname(os.path.dirname(os.path.abspath(__file__))), JAX_ENABLE_X64="1")
    out = subprocess.run([sys.executable, "-c", "from checks.c06 import _tte_main; _tte_main()"], capture_output=True, text=True, timeout=1800, env=env, cwd=os.path.dirname(os.path.dirname(os.path.abspath(__file__))))
    res = [json.loads(ln[4:]) for ln in out.stdout.splitlines() if ln.startswith("TTE ")]
    return res, out.stderr[-400:]


def _trace_then_eager(ck):
    fam = "compiled parameter sweep first, eager construction afterwards (fresh interpreter, concrete)"
    res, err = _run_tte()
    if not res:
        ck.error(f"trace-then-eager sub-process produced nothing: {err}")
        return
    for r in res:
        def replay(m, r=r):
            again, _ = _run_tte()
            now = next((x for x in again if x["name"] == r["name"]), None)
            return {"reproduced": bool(now is not None and not now["ok"]), "detail": f"{r['name']}: in a fresh interpreter, filter_jit(filter_vmap(build+step)) followed by the eager build: {now['detail'] if now else 'no result'}"}

        ck.add(f"compiled-then-eager/{r['name']}", bool(r["ok"]), [], family=fam, replay=replay)


def _params_concrete(ck):
    """traced versus eager construction (concrete, reported as such): a stepper built under eqx.filter_vmap /
    filter_jit from array-valued parameters gives the numbers of the stepper built eagerly from Python floats.
    The symbolic obligations above compare two TRACED constructions; a constructor that branches on the Python
    type of a parameter can only be seen by comparing with the eager float path."""
    fam = "traced (vmap/jit) construction = eager construction from Python floats (concrete)"
    rng = np.random.default_rng(0)
    cases = _concrete_cases()
    for nm, make, npar in cases:
        P = _sweep_values(nm, npar, rng)
        try:
            u = _concrete_state(nm, make, rng)
            eager = jnp.stack([make([float(x) for x in P[i]])(u) for i in range(2)])
            batched = eqx.filter_vmap(lambda p: make(p)(u))(P)
            jitted = eqx.filter_jit(lambda p: make(p)(u))(P[0])
            e = max(float(jnp.max(jnp.abs(batched - eager))), float(jnp.max(jnp.abs(jitted - eager[0]))))
            ok, detail = e < 1e-9, f"max deviation {e:.3g}"
        except Exception as ex_:  # noqa
            ok, detail = False, f"raises {type(ex_).__name__}: {str(ex_)[:160]}"
        ck.add(f"params-concrete/{nm}", bool(ok), [], family=fam, replay=lambda m, nm=nm, detail=detail: {"reproduced": True, "detail": f"{nm}: stepper built under filter_vmap/filter_jit differs from the eager float construction: {detail}"})


def _param_fail_replay(make, pshape, shape, msg):
    try:
        eqx.filter_vmap(lambda q, u: make(q)(u))(jnp.full((2,) + pshape, 0.3), jnp.zeros((2,) + shape))
        return {"reproduced": False, "detail": "tracing failed but the concrete call works: " + msg}
    except Exception as ex_:  # noqa
        return {"reproduced": True, "detail": f"eqx.filter_vmap over the constructor parameter raises {type(ex_).__name__}: {str(ex_)[:220]}"}


def _member_isolation(ck):
    """concrete (non-finite values do not exist in the real-arithmetic encoding): a batch member that is NaN / inf must not
    change any other member, for vmap(step), vmap(rollout), rollout(vmap) and repeat(vmap)"""
    fam = "each batch member depends only on itself, also next to a non-finite member (concrete)"
    rng = np.random.default_rng(1)
    for nm, st in (("Diffusion", S.Diffusion(1, 1.0, N, 0.1)), ("Burgers/order2", S.Burgers(1, 1.0, N, 0.01, order=2))):
        u = jnp.asarray(rng.normal(size=(1, N))) * 0.3
        for bad in (jnp.nan, jnp.inf):
            U = jnp.stack([u, jnp.full((1, N), bad), 2.0 * u])
            ref0, ref2 = ex.rollout(st, 3)(u), ex.rollout(st, 3)(2.0 * u)
            forms = {"vmap(step)": lambda: (jax.vmap(st)(U)[0], st(u)), "vmap(rollout)": lambda: (jax.vmap(ex.rollout(st, 3))(U)[0], ref0),
                     "rollout(vmap)": lambda: (ex.rollout(jax.vmap(st), 3)(U)[:, 0], ref0), "rollout(vmap)/last member": lambda: (ex.rollout(jax.vmap(st), 3)(U)[:, 2], ref2),
                     "repeat(vmap)": lambda: (ex.repeat(jax.vmap(st), 3)(U)[0], ref0[-1])}
            for form, f in forms.items():
                try:
                    got, want_ = f()
                    e = float(jnp.max(jnp.abs(got - want_)))
                    ok, detail = bool(e < 1e-12), f"max deviation {e!r}"
                except Exception as ex_:  # noqa
                    ok, detail = False, f"raises {type(ex_).__name__}"
                ck.add(f"isolation/{nm}/{form}/{'nan' if bad != bad else 'inf'}", ok, [], family=fam,
                       replay=lambda m, nm=nm, form=form, detail=detail: {"reproduced": True, "detail": f"{nm}, {form}: a finite member next to a non-finite member differs from its own single-state result: {detail}"})


def _vmap_rollout(ck):
    fam = "vmap(rollout) = swapaxes(rollout(vmap(step)), 0, 1)"
    n = 2
    for nm, st in (("Diffusion", S.Diffusion(1, 1.0, N, 0.1)), ("Burgers/order1", S.Burgers(1, 1.0, N, 0.01, order=1))):
        shape = (1, N)
        ins = [In("U", (B,) + shape)]
        for inc in (False, True):
            enc = Encoded(lambda U: (jax.vmap(ex.rollout(st, n, include_init=inc))(U), ex.rollout(jax.vmap(st), n, include_init=inc)(U), jax.vmap(ex.repeat(st, n))(U), ex.repeat(jax.vmap(st), n)(U)), ins, tag="vr")
            a, b, c, d = enc.outs
            bt = np.swapaxes(b, 0, 1)
            if a.shape != bt.shape:
                ck.add(f"rollout/{nm}/init={inc}/shape", False, [], family=fam, replay=lambda m: {"reproduced": True, "detail": "shapes differ"})
                continue
            for i in np.ndindex(a.shape):
                ck.add(f"rollout/{nm}/init={inc}/{'_'.join(map(str, i))}", sym.equal_goal(a[i], bt[i]), [], family=fam, timeout=120)
            for i in np.ndindex(c.shape):
                ck.add(f"rollout/{nm}/repeat/{'_'.join(map(str, i))}", sym.equal_goal(c[i], d[i]), [], family="vmap(repeat) = repeat(vmap(step))", timeout=120)


def _static_jit(ck, classes):
    """tracing with the state abstract succeeds for every class (then the jaxpr IS what filter_jit compiles);
    constructors traced with abstract numeric parameters are listed."""
    fam = "static: every stepper traces without concretisation (jit = eager up to float reassociation)"
    for nm, cls in classes:
        D, st = _make(cls, 2)
        if st is None:
            continue
        shape = (st.num_channels,) + (N,) * D
        try:
            jax.make_jaxpr(lambda u: eqx.filter_jit(st)(u))(jnp.zeros(shape))
            jax.make_jaxpr(lambda u: ex.rollout(st, 2)(u))(jnp.zeros(shape))
            ok = True
        except Exception:
            ok = False
        ck.add(f"static/{nm}/traces", ok, [], family=fam, replay=lambda m, nm=nm: {"reproduced": True, "detail": f"{nm} cannot be traced/jitted"})
