"""C13 -- specific / generic / normalized / difficulty interfaces give the same dynamics.

Two steppers built inside ONE traced function from the same symbolic
(L, dt, coefficients) are compared component-wise:
  * every argument the two constructors pass to exp (propagator, half
    propagator and all contour points of the ETDRK3 constructor, which contains
    every kind the orders 1-4 use) agrees per stored mode  => equal coefficient
    arrays up to the documented dt factor (same code, same inputs: congruence);
  * the two nonlinear functions agree on a symbolic Hermitian spectrum up to the
    documented factor (1 for specific<->generic and normalized<->difficulty;
    dt for physical<->normalized; 1/t for a rescaling (L,dt,a_j)->(sL,t dt,a_j s^j/t));
  * same integrator class (static).
The 18 conversion functions equal their documented formulas and are mutual
inverses (traced scalar arithmetic, symbolic arguments, non-zero divisors).
"""
from __future__ import annotations

from fractions import Fraction

import numpy as np
import z3

import exponax as ex
import jax.numpy as jnp

from vlib import oracle as orc
from vlib import sym
from vlib.eqinst import Encoded, In
from vlib.jx2smt import hermitian_spectrum
from vlib.sym import Cx, ONE, ZERO

S = ex.stepper
G = ex.stepper.generic
from exponax.stepper.generic import _utils as GU  # noqa: E402  (two conversion functions are not re-exported)
ORDER = 3


def build(ck):
    ck.encode_fn(G.GeneralLinearStepper, G.GeneralConvectionStepper, G.GeneralGradientNormStepper, G.GeneralPolynomialStepper, G.GeneralNonlinearStepper, G.GeneralVorticityConvectionStepper,
                 G.NormalizedConvectionStepper, G.NormalizedGradientNormStepper, G.NormalizedPolynomialStepper, G.NormalizedNonlinearStepper, G.DifficultyConvectionStepper, G.DifficultyGradientNormStepper,
                 G.DifficultyPolynomialStepper, G.DifficultyNonlinearStepper, S.Burgers, S.KortewegDeVries, S.KuramotoSivashinsky, S.KuramotoSivashinskyConservative, S.reaction.FisherKPP, S.NavierStokesVorticity,
                 G.normalize_coefficients, G.denormalize_coefficients)
    thorough = ck.tier == "thorough"
    grids = [(1, 6), (2, 6)] + ([(1, 8), (1, 7), (3, 6)] if thorough else [])
    ck.bound("grids (D,N): " + ", ".join(map(str, grids)) + "; L, dt > 0, all coefficients, rescaling factors s,t > 0 symbolic; constructor traced at ETDRK order 3 (contains every exp argument kind of orders 1-4); Hermitian spectra symbolic")
    ck.assume("real arithmetic; equal exp arguments imply equal coefficient arrays because both steppers run the same ETDRK constructor code (congruence; the dt factor in front of the contour mean is C02's obligation)")
    only = getattr(ck, "only", None)
    want = lambda t: (not only) or only in t
    for D, N in grids:
        for case in pairs(D, N):
            if want(f"{case[0]}/D{D}N{N}"):
                _compare(ck, D, N, *case)
    if want("conversions"):
        _conversions(ck)


def pairs(D, N, order=None):
    """(name, channels, n_params, makeA, makeB, nonlinear factor(L,dt,p) or None, extra preconditions(p))"""
    o = ORDER if order is None else order
    out = []
    one = lambda L, dt, p: None
    vecD = lambda x: x * jnp.ones(D)
    # ---- specific <-> generic
    out.append(("linear/Advection", 1, 1, lambda L, dt, p: S.Advection(D, L, N, dt, velocity=vecD(p[0])), lambda L, dt, p: G.GeneralLinearStepper(D, L, N, dt, linear_coefficients=(0.0, -p[0])), "linear", None))
    out.append(("linear/Diffusion", 1, 1, lambda L, dt, p: S.Diffusion(D, L, N, dt, diffusivity=vecD(p[0])), lambda L, dt, p: G.GeneralLinearStepper(D, L, N, dt, linear_coefficients=(0.0, 0.0, p[0])), "linear", None))
    out.append(("linear/AdvectionDiffusion", 1, 2, lambda L, dt, p: S.AdvectionDiffusion(D, L, N, dt, velocity=vecD(p[0]), diffusivity=vecD(p[1])), lambda L, dt, p: G.GeneralLinearStepper(D, L, N, dt, linear_coefficients=(0.0, -p[0], p[1])), "linear", None))
    out.append(("linear/Dispersion", 1, 1, lambda L, dt, p: S.Dispersion(D, L, N, dt, dispersivity=vecD(p[0])), lambda L, dt, p: G.GeneralLinearStepper(D, L, N, dt, linear_coefficients=(0.0, 0.0, 0.0, p[0])), "linear", None))
    out.append(("linear/HyperDiffusion", 1, 1, lambda L, dt, p: S.HyperDiffusion(D, L, N, dt, hyper_diffusivity=p[0]), lambda L, dt, p: G.GeneralLinearStepper(D, L, N, dt, linear_coefficients=(0.0, 0.0, 0.0, 0.0, -p[0])), "linear", None))
    out.append(("Burgers<->GeneralConvection", D, 2, lambda L, dt, p: S.Burgers(D, L, N, dt, diffusivity=p[0], convection_scale=p[1], order=o),
                lambda L, dt, p: G.GeneralConvectionStepper(D, L, N, dt, linear_coefficients=(0.0, 0.0, p[0]), convection_scale=p[1], order=o), None, None))
    out.append(("KdV<->GeneralConvection", D, 4, lambda L, dt, p: S.KortewegDeVries(D, L, N, dt, diffusivity=p[0], dispersivity=p[1], hyper_diffusivity=p[2], convection_scale=p[3], order=o),
                lambda L, dt, p: G.GeneralConvectionStepper(D, L, N, dt, linear_coefficients=(0.0, 0.0, p[0], -p[1], -p[2]), convection_scale=p[3], order=o), None, None))
    if D == 1:
        out.append(("KSConservative<->GeneralConvection", D, 3, lambda L, dt, p: S.KuramotoSivashinskyConservative(D, L, N, dt, convection_scale=p[0], second_order_scale=p[1], fourth_order_scale=p[2], order=o),
                    lambda L, dt, p: G.GeneralConvectionStepper(D, L, N, dt, linear_coefficients=(0.0, 0.0, -p[1], 0.0, -p[2]), convection_scale=p[0], conservative=True, order=o), None, None))
    out.append(("KS<->GeneralGradientNorm", 1, 3, lambda L, dt, p: S.KuramotoSivashinsky(D, L, N, dt, gradient_norm_scale=p[0], second_order_scale=p[1], fourth_order_scale=p[2], order=o),
                lambda L, dt, p: G.GeneralGradientNormStepper(D, L, N, dt, linear_coefficients=(0.0, 0.0, -p[1], 0.0, -p[2]), gradient_norm_scale=p[0], order=o), None, None))
    out.append(("FisherKPP<->GeneralPolynomial", 1, 2, lambda L, dt, p: S.reaction.FisherKPP(D, L, N, dt, diffusivity=p[0], reactivity=p[1], order=o),
                lambda L, dt, p: G.GeneralPolynomialStepper(D, L, N, dt, linear_coefficients=(p[1] / D, 0.0, p[0]), polynomial_coefficients=(0.0, 0.0, -p[1]), order=o), None, None))  # a_0 enters as D a_0 (documented isotropic form)
    out.append(("Burgers(single-channel)<->GeneralNonlinear", 1, 2, lambda L, dt, p: S.Burgers(D, L, N, dt, diffusivity=p[0], convection_scale=p[1], single_channel=True, conservative=True, order=o),
                lambda L, dt, p: G.GeneralNonlinearStepper(D, L, N, dt, linear_coefficients=(0.0, 0.0, p[0]), nonlinear_coefficients=(0.0, -p[1], 0.0), order=o), None, None))
    if D == 2:
        out.append(("NavierStokesVorticity<->GeneralVorticityConvection", 1, 3, lambda L, dt, p: S.NavierStokesVorticity(D, L, N, dt, diffusivity=p[0], vorticity_convection_scale=p[1], drag=p[2], order=o),
                    lambda L, dt, p: G.GeneralVorticityConvectionStepper(D, L, N, dt, linear_coefficients=(p[2] / D, 0.0, p[0]), vorticity_convection_scale=p[1], order=o), None, None))  # documented: a_0 (1.grad^0) u = D a_0 u
        out.append(("KolmogorovFlowVorticity<->GeneralVorticityConvection", 1, 4, lambda L, dt, p: S.KolmogorovFlowVorticity(D, L, N, dt, diffusivity=p[0], convection_scale=p[1], drag=p[2], injection_mode=1, injection_scale=p[3], order=o),
                    lambda L, dt, p: G.GeneralVorticityConvectionStepper(D, L, N, dt, linear_coefficients=(p[2] / D, 0.0, p[0]), vorticity_convection_scale=p[1], injection_mode=1, injection_scale=p[3], order=o), None, None))
    # ---- physical <-> normalized (through the real normalize_* functions): N_norm = dt * N_phys
    times_dt = lambda L, dt, p: dt
    out.append(("GeneralConvection<->Normalized", D, 4, lambda L, dt, p: G.GeneralConvectionStepper(D, L, N, dt, linear_coefficients=(p[0], p[1], p[2]), convection_scale=p[3], order=o),
                lambda L, dt, p: G.NormalizedConvectionStepper(D, N, normalized_linear_coefficients=G.normalize_coefficients((p[0], p[1], p[2]), domain_extent=L, dt=dt),
                                                               normalized_convection_scale=G.normalize_convection_scale(p[3], domain_extent=L, dt=dt), order=o), times_dt, None))
    # the conservative / single-channel flags must be passed through by the normalized and difficulty interfaces
    for flags, lab, Cf in (({"conservative": True}, "conservative", D), ({"single_channel": True}, "single-channel", 1), ({"single_channel": True, "conservative": True}, "single-channel+conservative", 1)):
        if D == 1 and lab != "single-channel+conservative":
            continue
        out.append((f"GeneralConvection({lab})<->Normalized", Cf, 4, lambda L, dt, p, flags=flags: G.GeneralConvectionStepper(D, L, N, dt, linear_coefficients=(p[0], p[1], p[2]), convection_scale=p[3], order=o, **flags),
                    lambda L, dt, p, flags=flags: G.NormalizedConvectionStepper(D, N, normalized_linear_coefficients=G.normalize_coefficients((p[0], p[1], p[2]), domain_extent=L, dt=dt),
                                                                   normalized_convection_scale=G.normalize_convection_scale(p[3], domain_extent=L, dt=dt), order=o, **flags), times_dt, None))
        out.append((f"DifficultyConvection({lab})<->Normalized", Cf, 4, lambda L, dt, p, flags=flags: G.DifficultyConvectionStepper(D, N, linear_difficulties=(p[0], p[1], p[2]), convection_difficulty=p[3], maximum_absolute=1.0, order=o, **flags),
                    lambda L, dt, p, flags=flags: G.NormalizedConvectionStepper(D, N, normalized_linear_coefficients=G.extract_normalized_coefficients_from_difficulty((p[0], p[1], p[2]), num_spatial_dims=D, num_points=N),
                                                                   normalized_convection_scale=G.extract_normalized_convection_scale_from_difficulty(p[3], num_spatial_dims=D, num_points=N, maximum_absolute=1.0), order=o, **flags), None, None))
    out.append(("GeneralGradientNorm<->Normalized", 1, 4, lambda L, dt, p: G.GeneralGradientNormStepper(D, L, N, dt, linear_coefficients=(p[0], p[1], p[2]), gradient_norm_scale=p[3], order=o),
                lambda L, dt, p: G.NormalizedGradientNormStepper(D, N, normalized_linear_coefficients=G.normalize_coefficients((p[0], p[1], p[2]), domain_extent=L, dt=dt),
                                                                 normalized_gradient_norm_scale=G.normalize_gradient_norm_scale(p[3], domain_extent=L, dt=dt), order=o), times_dt, None))
    out.append(("GeneralPolynomial<->Normalized", 1, 6, lambda L, dt, p: G.GeneralPolynomialStepper(D, L, N, dt, linear_coefficients=(p[0], p[1], p[2]), polynomial_coefficients=(p[3], p[4], p[5]), order=o),
                lambda L, dt, p: G.NormalizedPolynomialStepper(D, N, normalized_linear_coefficients=G.normalize_coefficients((p[0], p[1], p[2]), domain_extent=L, dt=dt),
                                                               normalized_polynomial_coefficients=G.normalize_polynomial_scales((p[3], p[4], p[5]), dt=dt), order=o), times_dt, None))
    out.append(("GeneralNonlinear<->Normalized", 1, 6, lambda L, dt, p: G.GeneralNonlinearStepper(D, L, N, dt, linear_coefficients=(p[0], p[1], p[2]), nonlinear_coefficients=(p[3], p[4], p[5]), order=o),
                lambda L, dt, p: G.NormalizedNonlinearStepper(D, N, normalized_linear_coefficients=G.normalize_coefficients((p[0], p[1], p[2]), domain_extent=L, dt=dt),
                                                              normalized_nonlinear_coefficients=(G.normalize_polynomial_scales((p[3],), dt=dt)[0], G.normalize_convection_scale(p[4], domain_extent=L, dt=dt), G.normalize_gradient_norm_scale(p[5], domain_extent=L, dt=dt)), order=o), times_dt, None))
    # ---- normalized <-> difficulty (through the real extract_* functions)
    M = 1.0
    out.append(("DifficultyConvection<->Normalized", D, 4, lambda L, dt, p: G.DifficultyConvectionStepper(D, N, linear_difficulties=(p[0], p[1], p[2]), convection_difficulty=p[3], maximum_absolute=M, order=o),
                lambda L, dt, p: G.NormalizedConvectionStepper(D, N, normalized_linear_coefficients=G.extract_normalized_coefficients_from_difficulty((p[0], p[1], p[2]), num_spatial_dims=D, num_points=N),
                                                               normalized_convection_scale=G.extract_normalized_convection_scale_from_difficulty(p[3], num_spatial_dims=D, num_points=N, maximum_absolute=M), order=o), None, None))
    out.append(("DifficultyGradientNorm<->Normalized", 1, 4, lambda L, dt, p: G.DifficultyGradientNormStepper(D, N, linear_difficulties=(p[0], p[1], p[2]), gradient_norm_difficulty=p[3], maximum_absolute=M, order=o),
                lambda L, dt, p: G.NormalizedGradientNormStepper(D, N, normalized_linear_coefficients=G.extract_normalized_coefficients_from_difficulty((p[0], p[1], p[2]), num_spatial_dims=D, num_points=N),
                                                                 normalized_gradient_norm_scale=G.extract_normalized_gradient_norm_scale_from_difficulty(p[3], num_spatial_dims=D, num_points=N, maximum_absolute=M), order=o), None, None))
    # ---- only the non-dimensional groups matter: (L, dt, a_j, b) -> (s L, t dt, a_j s^j / t, b s / t); p[4]=s, p[5]=t
    out.append(("rescaling/GeneralConvection", D, 6, lambda L, dt, p: G.GeneralConvectionStepper(D, L, N, dt, linear_coefficients=(p[0], p[1], p[2]), convection_scale=p[3], order=o),
                lambda L, dt, p: G.GeneralConvectionStepper(D, p[4] * L, N, p[5] * dt, linear_coefficients=(p[0] / p[5], p[1] * p[4] / p[5], p[2] * p[4] ** 2 / p[5]), convection_scale=p[3] * p[4] / p[5], order=o),
                lambda L, dt, p: sym.rdiv(ONE, p[5]), lambda p: [p[4] > 0, p[5] > 0]))
    return out


def _compare(ck, D, N, name, C, npar, mkA, mkB, factor, extra_pre):
    tag = f"{name}/D{D}N{N}"
    uh = hermitian_spectrum("u", N, D, C)
    ins = [In("L", (), lo=0.5, hi=2.0), In("dt", (), lo=0.01, hi=0.05), In("p", (npar,), lo=0.2, hi=1.0), In("uh", uh.shape, "complex", sym_arr=uh)]
    linear = factor == "linear"

    def f(L, dt, p, uh):
        A, B = mkA(L, dt, p), mkB(L, dt, p)
        if linear:
            return A.step_fourier(uh), B.step_fourier(uh)
        return A._integrator._nonlinear_fun(uh), B._integrator._nonlinear_fun(uh)

    enc = Encoded(f, ins, tag="c13")
    L, dt, p = ins[0].s, ins[1].s, ins[2].sym
    pre = [L > 0, dt > 0] + (extra_pre(p) if extra_pre else [])
    calls = enc.interp.calls["exp"]
    if not linear:
        _same_integrator(ck, D, N, name, C, npar)
    if extra_pre is None:
        _python_scalar_values(ck, D, N, name, C, npar, mkA, mkB)
    # the two constructors run one after the other: first half of the exp calls belongs to A, second half to B
    if len(calls) % 2 != 0:
        ck.add(f"{tag}/exp-arg/count", False, [], family=f"{name}: equal exp arguments",
               replay=_step_replay(D, N, C, npar, mkA, mkB, note=f"the two constructors evaluate {len(calls)} exponentials in total (an odd number: they do not build the same integrator)"))
        return
    h = len(calls) // 2
    kinds = ["propagator", "half-propagator"] + [f"contour{j}" for j in range(h)]
    for j in range(h):
        if j >= 2 and ck.tier != "thorough" and (j - 2) % 7 not in (0, 1):
            continue  # quick: the propagators and a sample of the contour points (all in thorough)
        a, b = calls[j]["arg"], calls[h + j]["arg"]
        for i in np.ndindex(a.shape):
            ck.add(f"{tag}/exp-arg/{kinds[j] if j < 2 else 'contour%d' % (j - 2)}/{'_'.join(map(str, i))}", sym.equal_goal(sym.asc(a[i]), sym.asc(b[i])), pre, family=f"{name}: equal exp arguments",
                   replay=_step_replay(D, N, C, npar, mkA, mkB), timeout=120)
    if linear:
        # order-0 steppers: outputs are E*u with the (now congruent) propagators; compare through the shared Ackermann table
        return
    fac = factor(L, dt, p) if factor else None
    for i in np.ndindex(enc.outs[0].shape):
        want = enc.outs[0][i] if fac is None else sym.cscale(sym.asc(enc.outs[0][i]), fac)
        ck.add(f"{tag}/nonlinear/{'_'.join(map(str, i))}", sym.equal_goal(enc.outs[1][i], want), pre, family=f"{name}: nonlinear terms agree (documented factor)", replay=_step_replay(D, N, C, npar, mkA, mkB), timeout=120)
    import random
    from vlib.numeval import NumEval

    ne = NumEval(enc.random_values(random.Random(3)), ack=enc.interp.ackdefs)
    cand = [i for i in np.ndindex(enc.outs[0].shape) if not sym.is_conc(enc.outs[0][i]) and abs(complex(ne.scalar(enc.outs[0][i]))) > 1e-6]
    if cand:
        i = cand[len(cand) // 2]
        ck.add(f"{tag}/twin", sym.equal_goal(enc.outs[1][i], sym.cscale(sym.asc(enc.outs[0][i]), orc.fl(3))), pre + [p[k] > 0 for k in range(npar)], family="C13/twin", expect="sat", timeout=120)


def _python_scalar_values(ck, D, N, name, C, npar, mkA, mkB):
    """concrete part: the paired interfaces agree when the parameters are PYTHON floats with special values (zero,
    negative).  Constructors branch on `x == 0.0` / `isinstance(x, float)`; the symbolic part passes tracers and cannot
    take such branches."""
    fam = f"{name}: agreement for Python-float parameters with special values (concrete)"
    rng = np.random.default_rng(2)
    u = jnp.asarray(rng.normal(size=(C,) + (N,) * D)) * 0.2
    for label, vals in (("negative", [-0.7, -0.3, -1.5, -0.4, 0.6, 0.8]), ("zero", [0.0] * 4 + [0.6, 0.8]), ("mixed", [0.3, 0.0, -0.5, -1.5, 0.6, 0.8])):
        pv = [float(v) for v in vals[:npar]]
        try:
            a, b = mkA(1.3, 0.01, pv)(u), mkB(1.3, 0.01, pv)(u)
            if not (bool(jnp.all(jnp.isfinite(a))) and bool(jnp.all(jnp.isfinite(b)))):
                continue  # outside the steppers' range (e.g. anti-diffusion at this dt): nothing to compare
            e = float(jnp.max(jnp.abs(a - b)))
            ok, detail = bool(e <= 1e-9 * max(1.0, float(jnp.max(jnp.abs(a))))), f"one step differs by {e:.3g} for parameters {pv}"
        except Exception as ex_:  # noqa
            ok, detail = False, f"raises {type(ex_).__name__}: {str(ex_)[:120]} for parameters {pv}"
        ck.add(f"{name}/D{D}N{N}/python-scalars/{label}", ok, [], family=fam, replay=lambda m, detail=detail: {"reproduced": True, "detail": f"{name}: {detail}"})


def _same_integrator(ck, D, N, name, C, npar):
    """static part: for every ETDRK order the two interfaces build the same integrator class (the symbolic part traces order 3 only)"""
    for o in (0, 1, 2, 3, 4):
        case = next((c for c in pairs(D, N, order=o) if c[0] == name), None)
        if case is None:
            continue
        mkA, mkB = case[3], case[4]
        p = jnp.asarray([0.3 + 0.1 * k for k in range(npar)])
        try:
            A, B = mkA(1.3, 0.02, p), mkB(1.3, 0.02, p)
            same = type(A._integrator) is type(B._integrator)
            note = f"order={o}: integrator classes {type(A._integrator).__name__} vs {type(B._integrator).__name__}"
        except Exception as ex_:  # noqa
            same, note = False, f"order={o}: construction raises {type(ex_).__name__}: {str(ex_)[:120]}"
        ck.add(f"{name}/D{D}N{N}/integrator-class/order{o}", bool(same), [], family=f"{name}: same integrator class for every order (static)", replay=_step_replay(D, N, C, npar, mkA, mkB, note=note))


def _step_replay(D, N, C, npar, mkA, mkB, note=""):
    def replay(model):
        from fractions import Fraction as F

        def g(n, d):
            v = model.get(n)
            return float(v) if isinstance(v, F) else d

        rng = np.random.default_rng(0)
        u = jnp.asarray(rng.normal(size=(C,) + (N,) * D)) * 0.1
        tried = []
        # the model's point first; the Ackermannised exp leaves L, dt and p unconstrained, so follow with fixed stress points
        for L, dt, p in [(g("L", 1.3), g("dt", 0.02), [g(f"p_{k}", 0.3 + 0.1 * k) for k in range(npar)]), (6.0, 0.01, [0.3 + 0.1 * k for k in range(npar)]), (20.0, 0.1, [0.7 - 0.1 * k for k in range(npar)])]:
            p = jnp.asarray(p)
            A, B = mkA(L, dt, p), mkB(L, dt, p)
            a, b = A(u), B(u)
            same = type(A._integrator) is type(B._integrator)
            if not (bool(jnp.all(jnp.isfinite(a))) and bool(jnp.all(jnp.isfinite(b)))):
                tried.append(f"non-finite at L={L}, dt={dt}")
                continue
            e = float(jnp.max(jnp.abs(a - b)))
            tried.append(f"{e:.3g} at L={L}, dt={dt}, p={np.asarray(p).tolist()}")
            if e > 1e-7 * max(1.0, float(jnp.max(jnp.abs(a)))) or not same:
                return {"reproduced": True, "detail": f"{note + '; ' if note else ''}one step of the two steppers differs by {tried[-1]}; same integrator class: {same}"}
        return {"reproduced": False, "detail": "one step of the two steppers: " + "; ".join(tried)}

    return replay


def _conversions(ck):
    for D, N in ((2, 7), (1, 6), (3, 5)):  # the dimension enters the difficulty formulas (2/D is 1 at D = 2)
        _conversions_DN(ck, D, N)


def _conversions_DN(ck, D, N):
    """documented formulas and inverse pairs of exponax.stepper.generic._utils"""
    ins = [In("a", (4,), lo=0.2, hi=1.0), In("L", (), lo=0.5, hi=2.0), In("dt", (), lo=0.1, hi=1.0), In("M", (), lo=0.5, hi=2.0)]

    def f(a, L, dt, M):
        t = tuple(a[i] for i in range(4))
        nc = G.normalize_coefficients(t, domain_extent=L, dt=dt)
        dc = G.denormalize_coefficients(nc, domain_extent=L, dt=dt)
        ncs = G.normalize_convection_scale(a[0], domain_extent=L, dt=dt)
        dcs = G.denormalize_convection_scale(ncs, domain_extent=L, dt=dt)
        ngn = G.normalize_gradient_norm_scale(a[0], domain_extent=L, dt=dt)
        dgn = G.denormalize_gradient_norm_scale(ngn, domain_extent=L, dt=dt)
        nps = G.normalize_polynomial_scales(t, dt=dt)
        dps = G.denormalize_polynomial_scales(nps, dt=dt)
        rd = G.reduce_normalized_coefficients_to_difficulty(t, num_spatial_dims=D, num_points=N)
        xd = G.extract_normalized_coefficients_from_difficulty(rd, num_spatial_dims=D, num_points=N)
        rcs = G.reduce_normalized_convection_scale_to_difficulty(a[0], num_spatial_dims=D, num_points=N, maximum_absolute=M)
        xcs = G.extract_normalized_convection_scale_from_difficulty(rcs, num_spatial_dims=D, num_points=N, maximum_absolute=M)
        rgn = G.reduce_normalized_gradient_norm_scale_to_difficulty(a[0], num_spatial_dims=D, num_points=N, maximum_absolute=M)
        xgn = G.extract_normalized_gradient_norm_scale_from_difficulty(rgn, num_spatial_dims=D, num_points=N, maximum_absolute=M)
        rnl = GU.reduce_normalized_nonlinear_scales_to_difficulty((a[0], a[1], a[2]), num_spatial_dims=D, num_points=N, maximum_absolute=M)
        xnl = GU.extract_normalized_nonlinear_scales_from_difficulty(rnl, num_spatial_dims=D, num_points=N, maximum_absolute=M)
        return dict(nc=jnp.stack(nc), dc=jnp.stack(dc), ncs=ncs, dcs=dcs, ngn=ngn, dgn=dgn, nps=jnp.stack(nps), dps=jnp.stack(dps), rd=jnp.stack(rd), xd=jnp.stack(xd), rcs=rcs, xcs=xcs, rgn=rgn, xgn=xgn,
                    rnl=jnp.stack(rnl), xnl=jnp.stack(xnl))

    enc = Encoded(f, ins, tag="cv")
    enc.validate(ck, what=f"conversions/D{D}")
    import jax

    keys = sorted(["nc", "dc", "ncs", "dcs", "ngn", "dgn", "nps", "dps", "rd", "xd", "rcs", "xcs", "rgn", "xgn", "rnl", "xnl"])
    out = dict(zip(keys, enc.outs))  # dict leaves are flattened in sorted key order
    a, L, dt, M = ins[0].sym, ins[1].s, ins[2].s, ins[3].s
    pre = [L > 0, dt > 0, M > 0]
    q = lambda x: orc.fl(x)
    doc = {
        "nc": [sym.rdiv(sym.rmul(a[i], dt), sym.rpow_int(L, i)) for i in range(4)],
        "ncs": sym.rdiv(sym.rmul(a[0], dt), L),
        "ngn": sym.rdiv(sym.rmul(a[0], dt), sym.rmul(L, L)),
        "nps": [sym.rmul(a[i], dt) for i in range(4)],
        "rd": [a[0]] + [sym.rmul(a[j], q(N**j * 2 ** (j - 1) * D)) for j in range(1, 4)],
        "rcs": sym.rmul(sym.rmul(a[0], M), q(N * D)),
        "rgn": sym.rmul(sym.rmul(a[0], M), q(N * N * D)),
        "rnl": [a[0], sym.rmul(sym.rmul(a[1], M), q(N * D)), sym.rmul(sym.rmul(a[2], M), q(N * N * D))],
    }
    inv = {"dc": [a[i] for i in range(4)], "dcs": a[0], "dgn": a[0], "dps": [a[i] for i in range(4)], "xd": [a[i] for i in range(4)], "xcs": a[0], "xgn": a[0], "xnl": [a[0], a[1], a[2]]}
    for group, table in (("documented formula", doc), ("inverse pair", inv)):
        for k, want in table.items():
            got = out[k]
            if isinstance(want, list):
                for i, w in enumerate(want):
                    ck.add(f"conversions/D{D}/{group}/{k}/{i}", sym.equal_goal(got[i], w), pre, family=f"conversion functions: {group}")  # generic replay: real functions at the model point
            else:
                ck.add(f"conversions/D{D}/{group}/{k}", sym.equal_goal(got[()], want), pre, family=f"conversion functions: {group}")
    ck.add(f"conversions/D{D}/twin", sym.equal_goal(out["ncs"][()], sym.rmul(a[0], dt)), pre, family="C13/twin", expect="sat")
