"""C01 -- linear steppers advance band-limited states by the exact PDE solution.

Engine E1.  Per class x (D, N): the argument the real constructor hands to
``exp`` equals dt * (documented symbol) for every stored mode, with L, dt and
all coefficients symbolic reals; step_fourier multiplies by that exponential;
semigroup / inverse follow with the sound instances exp(a)exp(b)=exp(a+b),
exp(0)=1; the physical-space call equals the harness' own inverse DFT of
E * DFT(u) on Nyquist-free states; the wave stepper equals d'Alembert's
rotation per mode.
"""
from __future__ import annotations

import numpy as np
import z3

import equinox as eqx
import exponax as ex
import jax.numpy as jnp

from vlib import oracle as orc
from vlib import sym
from vlib.eqinst import Encoded, In
from vlib.jx2smt import hermitian_spectrum
from vlib.sym import Cx, ONE, ZERO

LIN = dict(lo=0.5, hi=2.0)


def _vec(a, n):
    return [a[i] for i in range(n)]


def cases(D, N):
    """(name, parameter Ins, constructor(L,dt,*params), documented symbol(m, W, *params))"""
    S = ex.stepper
    G = ex.stepper.generic
    out = []
    out.append(("Advection", [In("c", (D,))], lambda L, dt, c: S.Advection(D, L, N, dt, velocity=c), lambda m, W, c: orc.sym_advection(m, W, _vec(c, D))))
    out.append(("Diffusion/vector", [In("nu", (D,))], lambda L, dt, nu: S.Diffusion(D, L, N, dt, diffusivity=nu),
                lambda m, W, nu: orc.sym_diffusion(m, W, [[nu[i] if i == j else ZERO for j in range(D)] for i in range(D)])))
    out.append(("Diffusion/matrix", [In("A", (D, D))], lambda L, dt, A: S.Diffusion(D, L, N, dt, diffusivity=A),
                lambda m, W, A: orc.sym_diffusion(m, W, [[A[i, j] for j in range(D)] for i in range(D)])))
    out.append(("Diffusion/scalar", [], lambda L, dt: S.Diffusion(D, L, N, dt, diffusivity=0.25),
                lambda m, W: orc.sym_diffusion(m, W, [[orc.fl(0.25) if i == j else ZERO for j in range(D)] for i in range(D)])))
    out.append(("AdvectionDiffusion", [In("c", (D,)), In("A", (D, D))], lambda L, dt, c, A: S.AdvectionDiffusion(D, L, N, dt, velocity=c, diffusivity=A),
                lambda m, W, c, A: sym.cadd(orc.sym_advection(m, W, _vec(c, D)), orc.sym_diffusion(m, W, [[A[i, j] for j in range(D)] for i in range(D)]))))
    for mix in (False, True):
        out.append((f"Dispersion/mix={mix}", [In("xi", (D,))], lambda L, dt, xi, mix=mix: S.Dispersion(D, L, N, dt, dispersivity=xi, advect_on_diffusion=mix),
                    lambda m, W, xi, mix=mix: orc.sym_dispersion(m, W, _vec(xi, D), mix)))
        out.append((f"HyperDiffusion/mix={mix}", [In("zeta", ())], lambda L, dt, zeta, mix=mix: S.HyperDiffusion(D, L, N, dt, hyper_diffusivity=zeta, diffuse_on_diffuse=mix),
                    lambda m, W, zeta, mix=mix: orc.sym_hyper_diffusion(m, W, zeta[()], mix)))
    out.append(("GeneralLinearStepper/order4", [In("a", (5,))], lambda L, dt, a: G.GeneralLinearStepper(D, L, N, dt, linear_coefficients=tuple(a[i] for i in range(5))),
                lambda m, W, a: orc.sym_general(m, W, _vec(a, 5))))
    return out


def build(ck):
    thorough = ck.tier == "thorough"
    grids = [(1, 5), (1, 6), (2, 4), (2, 5), (3, 3)]
    if thorough:
        grids = [(1, n) for n in (3, 4, 5, 6, 7, 8, 12)] + [(2, n) for n in (3, 4, 5, 6)] + [(3, 3), (3, 4)]
    ck.encode_fn(ex.stepper.Advection, ex.stepper.Diffusion, ex.stepper.AdvectionDiffusion, ex.stepper.Dispersion, ex.stepper.HyperDiffusion, ex.stepper.Wave,
                 ex.stepper.generic.GeneralLinearStepper, ex.stepper.generic.NormalizedLinearStepper, ex.stepper.generic.DifficultyLinearStepper,
                 ex.stepper.generic.DifficultyLinearStepperSimple, ex.spectral.build_derivative_operator, ex.spectral.build_scaled_wavenumbers, ex.spectral.build_wavenumbers,
                 ex.spectral.build_laplace_operator, ex.spectral.build_gradient_inner_product_operator, ex.etdrk.ETDRK0, ex.etdrk.BaseETDRK, ex.BaseStepper.step,
                 ex.BaseStepper.step_fourier, ex.BaseStepper.__init__, ex.fft, ex.ifft)
    ck.bound("grids (D,N): " + ", ".join(f"({d},{n})" for d, n in grids))
    ck.bound("L>0, dt, every coefficient: unconstrained symbolic reals; whole spectrum / state symbolic")
    ck.assume("array arithmetic over the reals (IEEE rounding of XLA kernels outside the claim)")
    ck.assume("exp is Ackermannised; only exp(a)exp(b)=exp(a+b), exp(0)=1 and syntactic congruence are used")
    ck.out_of_scope("grid sizes not listed; float rounding of exp and of the product")

    for D, N in grids:
        for name, pins, ctor, symdoc in cases(D, N):
            if _want(ck, f"{name}/D{D}N{N}"):
                _linear_case(ck, D, N, name, pins, ctor, symdoc)
        if _want(ck, f"Normalized/D{D}N{N}"):
            _normalized_cases(ck, D, N)
        if _want(ck, f"Wave/D{D}N{N}"):
            _wave_case(ck, D, N)
        if not _want(ck, f"physical/D{D}N{N}"):
            continue
        if (D, N) in ((1, 5), (1, 6), (2, 4)) or (thorough and (D, N) in ((1, 4), (1, 7), (1, 8), (2, 5), (3, 3))):
            _physical_case(ck, D, N)


# ---------------------------------------------------------------------------


def _construct(ctor, N, L, dt, *ps):
    return ctor(L, dt, *ps)


def _want(ck, tag):
    o = getattr(ck, "only", None)
    return (not o) or (o in tag)


def _linear_case(ck, D, N, name, pins, ctor, symdoc):
    tag = f"{name}/D{D}N{N}"
    spec = (1,) + orc.spectrum_shape(D, N)
    ins = [In("L", (), **LIN), In("dt", (), lo=-0.02, hi=0.02)] + [In(p.name, p.shape, lo=-1.0, hi=1.0) for p in pins] + [In("uh", spec, "complex")]

    def f(L, dt, *rest):
        ps, uh = rest[:-1], rest[-1]
        return _construct(ctor, N, L, dt, *ps).step_fourier(uh)

    enc = Encoded(f, ins)
    enc.validate(ck, npoints=1, what=tag)
    L, dt = ins[0].s, ins[1].s
    ps = [i.sym for i in ins[2:-1]]
    uh = ins[-1].sym
    pre = [L > 0]
    W = orc.two_pi_over(L)
    calls = enc.interp.calls.get("exp", [])
    calls = [c for c in calls if tuple(c["arg"].shape) == spec]
    if len(calls) != 1:
        # the constructor does not have the single exp(dt * symbol) of the documented form (several exponentials, or the
        # symbol folded to a constant): compare the step's OUTPUT with exp(dt * documented symbol) * u_hat mode by mode
        for idx, m in orc.stored_modes(D, N):
            doc_arg = orc.cscale(symdoc(m, W, *ps), dt)
            e_doc = enc.interp._ack("exp", doc_arg, True) if not sym.is_conc(doc_arg) else Cx(ONE, ZERO)
            want_ = sym.cmul(sym.asc(e_doc), uh[(0,) + idx])
            ck.add(f"{tag}/output/{'_'.join(map(str, idx))}", sym.equal_goal(enc.outs[0][(0,) + idx], want_), pre + enc.interp.sound_facts(), family=f"{name}/output = exp(dt symbol) u_hat",
                   replay=enc.replay_eq(0, (0,) + idx, want_), meta={"D": D, "N": N, "mode": list(m)})
        return
    arg, E = calls[0]["arg"], calls[0]["out"]
    doc_exp = np.empty(spec, dtype=object)
    for idx, m in orc.stored_modes(D, N):
        lam = symdoc(m, W, *ps)
        doc_arg = orc.cscale(lam, dt)
        code_arg = sym.asc(arg[(0,) + idx])
        e_doc = enc.interp._ack("exp", doc_arg, True) if not sym.is_conc(doc_arg) else Cx(ONE, ZERO)
        doc_exp[(0,) + idx] = e_doc
        ck.add(f"{tag}/symbol/{'_'.join(map(str, idx))}", sym.equal_goal(code_arg, doc_arg), pre, family=f"{name}/symbol",
               replay=enc.replay_eq(0, (0,) + idx, sym.cmul(sym.asc(e_doc), uh[(0,) + idx])), meta={"D": D, "N": N, "mode": list(m)})
    # step_fourier multiplies by the exponential the constructor computed
    enc.compare(ck, f"{tag}/apply", 0, np.vectorize(lambda e, u: sym.cmul(sym.asc(e), u), otypes=[object])(E, uh), pre, family=f"{name}/apply")
    # reachability twin: documented symbol with a factor 2 on dt must be refutable
    idx, m = next((i, mm) for i, mm in orc.stored_modes(D, N) if any(mm))
    lam = symdoc(m, W, *ps)
    if not sym.is_conc(lam):
        ck.add(f"{tag}/twin", sym.equal_goal(sym.asc(arg[(0,) + idx]), orc.cscale(lam, sym.rmul(orc.fl(2), dt))), pre, family=f"{name}/twin", expect="sat")

    # semigroup and inverse
    if N in (5, 6, 4, 3) and D <= 2 or ck.tier == "thorough":
        _semigroup(ck, D, N, name, pins, ctor)


def _semigroup(ck, D, N, name, pins, ctor):
    tag = f"{name}/D{D}N{N}"
    spec = (1,) + orc.spectrum_shape(D, N)
    ins = [In("L", (), **LIN), In("dt1", (), lo=-0.02, hi=0.02), In("dt2", (), lo=-0.02, hi=0.02)] + [In(p.name, p.shape) for p in pins] + [In("uh", spec, "complex")]

    def f(L, dt1, dt2, *rest):
        ps, uh = rest[:-1], rest[-1]
        s1 = _construct(ctor, N, L, dt1, *ps)
        s2 = _construct(ctor, N, L, dt2, *ps)
        s12 = _construct(ctor, N, L, dt1 + dt2, *ps)
        sm = _construct(ctor, N, L, -dt1, *ps)
        return s2.step_fourier(s1.step_fourier(uh)), s12.step_fourier(uh), sm.step_fourier(s1.step_fourier(uh))

    enc = Encoded(f, ins, tag="sg")
    enc.validate(ck, npoints=1, what=tag + "/semigroup")
    L = ins[0].s
    pre = [L > 0]
    calls = enc.interp.calls["exp"]
    assert len(calls) == 4, len(calls)
    (a1, E1), (a2, E2), (a12, E12), (am, Em) = [(c["arg"], c["out"]) for c in calls]
    uh = ins[-1].sym
    facts, facts_inv = [], []
    for idx, m in orc.stored_modes(D, N):
        i = (0,) + idx
        x1, x2, x12, xm = (sym.asc(a[i]) for a in (a1, a2, a12, am))
        ck.add(f"{tag}/semigroup-arg/{'_'.join(map(str, idx))}", sym.equal_goal(x12, sym.cadd(x1, x2)), pre, family=f"{name}/semigroup-arg",
               replay=enc.replay_eq(1, i, enc.outs[0][i]))
        ck.add(f"{tag}/inverse-arg/{'_'.join(map(str, idx))}", sym.equal_goal(sym.cadd(x1, xm), Cx(ZERO, ZERO)), pre, family=f"{name}/inverse-arg",
               replay=enc.replay_eq(2, i, uh[i]))
        # sound instances of exp(a)exp(b) = exp(a+b), exp(0) = 1 (justified by the two obligations above)
        p = sym.cmul(sym.asc(E1[i]), sym.asc(E2[i]))
        f1 = sym.equal_goal(sym.asc(E12[i]), p)
        q = sym.cmul(sym.asc(E1[i]), sym.asc(Em[i]))
        f2 = sym.equal_goal(q, Cx(ONE, ZERO))
        ck.add(f"{tag}/semigroup/{'_'.join(map(str, idx))}", sym.equal_goal(enc.outs[0][i], enc.outs[1][i]), pre + ([f1] if not isinstance(f1, bool) else []),
               family=f"{name}/semigroup", replay=enc.replay_eq(1, i, enc.outs[0][i]))
        ck.add(f"{tag}/inverse/{'_'.join(map(str, idx))}", sym.equal_goal(enc.outs[2][i], uh[i]), pre + ([f2] if not isinstance(f2, bool) else []),
               family=f"{name}/inverse", replay=enc.replay_eq(2, i, uh[i]))


def _normalized_cases(ck, D, N):
    G = ex.stepper.generic
    spec = (1,) + orc.spectrum_shape(D, N)
    W1 = sym.rmul(orc.fl(2), sym.Fl(3.141592653589793, sym.PI()))  # 2 pi / 1
    J = 4
    for name, mk, alpha_of in [
        ("NormalizedLinearStepper", lambda a: G.NormalizedLinearStepper(D, N, normalized_linear_coefficients=tuple(a[i] for i in range(J))), lambda a, j: a[j]),
        ("DifficultyLinearStepper", lambda a: G.DifficultyLinearStepper(D, N, linear_difficulties=tuple(a[i] for i in range(J))),
         lambda a, j: a[j] if j == 0 else sym.rdiv(a[j], orc.fl(N**j * 2 ** (j - 1) * D) if j >= 1 else ONE)),
    ]:
        tag = f"{name}/D{D}N{N}"
        ins = [In("a", (J,)), In("uh", spec, "complex")]
        enc = Encoded(lambda a, uh, mk=mk: mk(a).step_fourier(uh), ins)
        enc.validate(ck, npoints=1, what=tag)
        a, uh = ins[0].sym, ins[1].sym
        calls = enc.interp.calls["exp"]
        arg = calls[0]["arg"]
        for idx, m in orc.stored_modes(D, N):
            doc = orc.sym_general(m, W1, [alpha_of(a, j) for j in range(J)])
            e_doc = enc.interp._ack("exp", doc, True) if not sym.is_conc(doc) else Cx(ONE, ZERO)
            ck.add(f"{tag}/symbol/{'_'.join(map(str, idx))}", sym.equal_goal(sym.asc(arg[(0,) + idx]), doc), [], family=f"{name}/symbol",
                   replay=enc.replay_eq(0, (0,) + idx, sym.cmul(sym.asc(e_doc), uh[(0,) + idx])))
        enc.compare(ck, f"{tag}/apply", 0, np.vectorize(lambda e, u: sym.cmul(sym.asc(e), u), otypes=[object])(calls[0]["out"], uh), [], family=f"{name}/apply")
    # simple difficulty interface: one difficulty at a given order
    for order in (1, 2, 3):
        tag = f"DifficultyLinearStepperSimple/order{order}/D{D}N{N}"
        ins = [In("g", ()), In("uh", spec, "complex")]
        enc = Encoded(lambda g, uh, order=order: G.DifficultyLinearStepperSimple(D, N, difficulty=g, order=order).step_fourier(uh), ins)
        enc.validate(ck, npoints=1, what=tag)
        g, uh = ins[0].s, ins[1].sym
        arg = enc.interp.calls["exp"][0]["arg"]
        alpha = sym.rdiv(g, orc.fl(N**order * 2 ** (order - 1) * D))
        for idx, m in orc.stored_modes(D, N):
            doc = orc.sym_general(m, W1, [ZERO] * order + [alpha])
            e_doc = enc.interp._ack("exp", doc, True) if not sym.is_conc(doc) else Cx(ONE, ZERO)
            ck.add(f"{tag}/symbol/{'_'.join(map(str, idx))}", sym.equal_goal(sym.asc(arg[(0,) + idx]), doc), [], family="DifficultyLinearStepperSimple/symbol",
                   replay=enc.replay_eq(0, (0,) + idx, sym.cmul(sym.asc(e_doc), uh[(0,) + idx])))


def _wave_case(ck, D, N):
    """uₜₜ = c² Δu as (h, v): per mode k != 0 with w = c|k|:
         h' = h cos(w dt) + v sin(w dt)/w ;  v' = -w h sin(w dt) + v cos(w dt)
       and for k = 0:  h' = h + dt v, v' = v."""
    tag = f"Wave/D{D}N{N}"
    spec = (2,) + orc.spectrum_shape(D, N)
    ins = [In("L", (), **LIN), In("dt", (), lo=-0.02, hi=0.02), In("c", (), lo=0.5, hi=2.0), In("uh", spec, "complex")]
    enc = Encoded(lambda L, dt, c, uh: ex.stepper.Wave(D, L, N, dt, speed_of_sound=c).step_fourier(uh), ins)
    enc.validate(ck, npoints=1, what=tag)
    L, dt, c, uh = ins[0].s, ins[1].s, ins[2].s, ins[3].sym
    pre = [L > 0, c > 0] + enc.interp.sound_facts()
    W = orc.two_pi_over(L)
    calls = enc.interp.calls["exp"]
    assert len(calls) == 1
    arg, E = calls[0]["arg"], calls[0]["out"]
    for idx, m in orc.stored_modes(D, N):
        k2 = sym.rsum([sym.rpow_int(sym.rmul(orc.fl(mm), W), 2) for mm in m])
        h, v = sym.asc(uh[(0,) + idx]), sym.asc(uh[(1,) + idx])
        name = "_".join(map(str, idx))
        if not any(m):
            ck.add(f"{tag}/mean/h/{name}", sym.equal_goal(enc.outs[0][(0,) + idx], sym.cadd(h, sym.cscale(v, dt))), pre, family="Wave/mean",
                   replay=enc.replay_eq(0, (0,) + idx, sym.cadd(h, sym.cscale(v, dt))))
            ck.add(f"{tag}/mean/v/{name}", sym.equal_goal(enc.outs[0][(1,) + idx], v), pre, family="Wave/mean", replay=enc.replay_eq(0, (1,) + idx, v))
            continue
        # omega: the positive root of c^2 |k|^2 (fresh, pinned by sound sqrt facts)
        om = z3.Real(f"omega_{name}")
        om_facts = [om > 0, om * om == sym.zr(sym.rmul(sym.rmul(c, c), k2))]
        # the two exp arguments must be +- i * omega * dt
        ap, an = sym.asc(arg[(0,) + idx]), sym.asc(arg[(1,) + idx])
        ck.add(f"{tag}/phase+/{name}", sym.equal_goal(ap, Cx(ZERO, sym.rmul(om, dt))), pre + om_facts, family="Wave/phase")
        ck.add(f"{tag}/phase-/{name}", sym.equal_goal(an, Cx(ZERO, sym.rneg(sym.rmul(om, dt)))), pre + om_facts, family="Wave/phase")
        Ep, En = sym.asc(E[(0,) + idx]), sym.asc(E[(1,) + idx])
        # sound facts: exp(conj a) = conj exp(a) (a_neg = conj a_pos), |exp(i t)| = 1
        Cc, Ss = Ep.re, Ep.im
        efacts = [En.re == Cc, En.im == -Ss, Cc * Cc + Ss * Ss == 1]
        hn = sym.cadd(sym.cscale(h, Cc), sym.cscale(v, sym.rdiv(Ss, om)))
        vn = sym.cadd(sym.cscale(h, sym.rneg(sym.rmul(om, Ss))), sym.cscale(v, Cc))
        # replay oracle uses true cos/sin of omega*dt through the Ackermann definitions of exp
        ck.add(f"{tag}/dalembert/h/{name}", sym.equal_goal(enc.outs[0][(0,) + idx], hn), pre + om_facts + efacts, family="Wave/dalembert",
               replay=_wave_replay(enc, D, N, idx, m, 0))
        ck.add(f"{tag}/dalembert/v/{name}", sym.equal_goal(enc.outs[0][(1,) + idx], vn), pre + om_facts + efacts, family="Wave/dalembert",
               replay=_wave_replay(enc, D, N, idx, m, 1))
    ck.add(f"{tag}/twin", sym.equal_goal(enc.outs[0][(0,) + (0,) * D], sym.asc(uh[(0,) + (0,) * D])), pre, family="Wave/twin", expect="sat")


def _wave_replay(enc, D, N, idx, m, ch):
    import cmath
    import math
    from fractions import Fraction

    def replay(model):
        vals = {nm: 1.0 for nm in enc.vars}
        for k, v in model.items():
            if isinstance(v, Fraction) and k in enc.vars:
                vals[k] = float(v)
        real, ne = enc.real_outputs(vals)
        L, dt, c = vals["L"], vals["dt"], vals["c"]
        w = abs(c) * 2 * math.pi / L * math.sqrt(sum(mm * mm for mm in m))
        nm = "uh_{}_" + "_".join(map(str, idx))
        h = complex(vals[nm.format(0) + "_re"], vals[nm.format(0) + "_im"])
        v = complex(vals[nm.format(1) + "_re"], vals[nm.format(1) + "_im"])
        exp = [h * math.cos(w * dt) + v * math.sin(w * dt) / w, -w * h * math.sin(w * dt) + v * math.cos(w * dt)][ch]
        got = complex(real[0][(ch,) + idx])
        bad = abs(got - exp) > 1e-7 * (1 + abs(exp))
        return {"reproduced": bool(bad), "detail": f"Wave mode {m}: real {got}, d'Alembert {exp}", "inputs": vals}

    return replay


def _physical_case(ck, D, N):
    """stepper(u) on a Nyquist-free real state equals the harness' own inverse
    DFT of E(m) * c(m) over the full (two-sided) spectrum, E Hermitian."""
    tag = f"physical/D{D}N{N}"
    Eh = hermitian_spectrum("E", N, D, 1)
    ins = [In("E", (1,) + orc.spectrum_shape(D, N), "complex", sym_arr=Eh), In("u", (1,) + (N,) * D)]

    def f(E, u):
        s = ex.stepper.Diffusion(D, 1.0, N, 0.1)
        s = eqx.tree_at(lambda t: t._integrator._exp_term, s, E)
        return s(u)

    enc = Encoded(f, ins, tag="ph")
    u = ins[1].sym
    # precondition: no Nyquist content (linear constraints on u)
    pre = []
    coeffs = {}
    for m in orc.all_modes(D, N):
        cm = orc.fourier_coeff(u[0], m, N)
        if orc.is_nyquist(m, N):
            for part in (cm.re, cm.im):
                g = sym.rcmp("eq", part, ZERO)
                if not isinstance(g, bool):
                    pre.append(g)
        else:
            coeffs[m] = sym.cmul(orc.half_lookup(Eh[0], m, N), cm)
    inv = sym.Fl(1.0 / N**D, __import__("fractions").Fraction(1, N**D))
    orac = np.empty((1,) + (N,) * D, dtype=object)
    for x in np.ndindex((N,) * D):
        orac[(0,) + x] = sym.rmul(orc.synth(coeffs, x, N).re, inv)
    enc.compare(ck, tag, 0, orac, pre, family="physical-space step", timeout=120)
    # twin: without the Nyquist-free precondition on an even grid the identity must fail
    if N % 2 == 0:
        x0 = (0,) * (D + 1)
        ck.add(f"{tag}/twin", sym.equal_goal(enc.outs[0][x0], orac[x0]), [], family="physical/twin", expect="sat")
