"""C17 -- radial spectrum: every mode lands in its documented bin with Parseval weights.

E1: the real get_spectrum on a symbolic state: every output bin equals the sum
(or average) over the stored modes k with round(|k|) = bin of the documented
per-mode quantity (power: w_k |c_k|^2 / 2 with c_k = u_hat_k / N^D, amplitude:
w_k |c_k|), modes outside the Nyquist sphere dropped; sum of the power bins in
1D equals half the mean square; a single-mode field a cos(k.x + phi) gives a in
bin round(|k|); channels independent.
E2 (QF_BVFP + fp.sqrt): for all N <= 256 and all integer wavenumber vectors the
float bin test k-1/2 <= ||k|| < k+1/2 (float32 and float64 norm) equals the
exact integer test (2b-1)^2 <= 4|k|^2 < (2b+1)^2.
"""
from __future__ import annotations

import math
from fractions import Fraction

import numpy as np
import z3

import exponax as ex
import jax.numpy as jnp

from vlib import oracle as orc
from vlib import pyk, sym
from vlib.eqinst import Encoded, In
from vlib.sym import Cx, ONE, ZERO


def bin_of(m):
    r2 = sum(x * x for x in m)
    b = int(math.isqrt(r2))
    # round half up of sqrt(r2): b if r2 < (b+1/2)^2 i.e. 4 r2 < (2b+1)^2
    return b if 4 * r2 < (2 * b + 1) ** 2 else b + 1


def weight(D, N, m):
    """number of two-sided modes a stored mode stands for (1 on the self-conjugate planes of the last axis)"""
    return 1 if (m[-1] == 0 or (N % 2 == 0 and m[-1] == N // 2)) else 2


def build(ck):
    ck.encode_fn(ex.get_spectrum, ex.spectral.build_scaling_array, ex.spectral.build_wavenumbers, ex.fft)
    thorough = ck.tier == "thorough"
    grids = [(1, 5), (1, 6), (2, 4), (2, 5)] + ([(1, 4), (1, 7), (1, 8), (2, 6), (3, 3), (3, 4)] if thorough else [(3, 3)])
    ck.bound("E1 grids (D,N): " + ", ".join(map(str, grids)) + "; power/amplitude x sum/average; E2: all N<=256, D in {2,3}, float32 and float64 norms")
    ck.assume("real arithmetic for array kernels; complex modulus Ackermannised with s>=0, s^2=|c|^2")
    only = getattr(ck, "only", None)
    want = lambda t: (not only) or only in t
    for D, N in grids:
        for power in (True, False):
            for binning in (("sum", "average") if D > 1 else ("sum",)):
                if want(f"bins/D{D}N{N}/power={power}/{binning}"):
                    _bins(ck, D, N, power, binning)
        if want(f"single/D{D}N{N}"):
            _single_mode(ck, D, N)
    if want("channels"):
        _channels(ck)
    if want("E2"):
        _bin_edges_all_N(ck)


def _bins(ck, D, N, power, binning):
    tag = f"bins/D{D}N{N}/power={power}/{binning}"
    ins = [In("u", (1,) + (N,) * D)]
    enc = Encoded(lambda u: ex.get_spectrum(u, power=power, radial_binning=binning), ins, tag="sp")
    enc.validate(ck, what=tag)
    u = ins[0].sym
    nb = N // 2 + 1
    out = enc.outs[0]
    if tuple(out.shape) != (1, nb):
        ck.add(f"{tag}/shape", False, [], family="get_spectrum: bins 0..N//2",
               replay=lambda m: (lambda sh: {"reproduced": tuple(sh) != (1, nb), "detail": f"get_spectrum returns shape {tuple(sh)} for a (1,{','.join([str(N)] * D)}) state, documented (1, {nb})"})(ex.get_spectrum(jnp.ones((1,) + (N,) * D), power=power, radial_binning=binning).shape))
        return
    # Ackermannised moduli of the code: map stored index -> (radicand, s)
    sq = enc.interp.sqrt_facts
    facts = enc.interp.sound_facts()
    inv = Fraction(1, N**D)
    per_bin = {b: [] for b in range(nb)}
    count = {b: 0 for b in range(nb)}
    k = 0
    for idx, m in orc.stored_modes(D, N):
        c = orc.fourier_coeff(u[0], tuple(m), N)
        mod2 = sym.cabs2(c)
        # staged: the code's radicand for this stored mode is |u_hat|^2 computed by the harness' own DFT
        if k < len(sq):
            rad, s = sq[k]
            ck.add(f"{tag}/modulus-arg/{'_'.join(map(str, idx))}", sym.rcmp("eq", rad, mod2), [], family="get_spectrum: modulus of the right coefficient")
        k += 1
        b = bin_of(m)
        if b >= nb:
            continue
        w = weight(D, N, m)
        count[b] += 1
        if power:
            per_bin[b].append(sym.rmul(orc.fl(Fraction(w, 2) * inv * inv), rad if k <= len(sq) else mod2))  # staged: rad == |u_hat|^2 is the obligation above
        else:
            per_bin[b].append(sym.rmul(orc.fl(w * inv), s) if k <= len(sq) else ZERO)
    for b in range(nb):
        tot = sym.rsum(per_bin[b]) if per_bin[b] else ZERO
        if binning == "average" and count[b]:
            tot = sym.rmul(orc.fl(Fraction(1, count[b])), tot)
        ck.add(f"{tag}/bin{b}", sym.equal_goal(out[0, b], tot), facts, family=f"get_spectrum: bin = {'power' if power else 'amplitude'} {binning} over modes with round(|k|) = bin", timeout=120,
               replay=_spec_replay(D, N, power, binning))
    if power and D == 1:
        half_ms = sym.rmul(orc.fl(Fraction(1, 2) * inv), sym.rsum([sym.rmul(u[i], u[i]) for i in np.ndindex(u.shape)]))
        ck.add(f"{tag}/parseval", sym.equal_goal(sym.rsum([out[0, b] for b in range(nb)]), half_ms), facts, family="1D: sum of the power spectrum = mean(u^2)/2", timeout=120, stretch=(N == 5), replay=_spec_replay(D, N, power, binning))
    if power and binning == "sum":
        ck.add(f"{tag}/twin", sym.equal_goal(out[0, 1], sym.rmul(orc.fl(2), sym.rsum(per_bin[1]))), facts, family="C17/twin", expect="sat", timeout=120)


def _spec_replay(D, N, power, binning):
    def replay(model):
        rng = np.random.default_rng(0)
        u = rng.normal(size=(1,) + (N,) * D)
        got = np.asarray(ex.get_spectrum(jnp.asarray(u), power=power, radial_binning=binning))[0]
        uh = np.fft.fftn(u[0]) / N**D
        exp = np.zeros(N // 2 + 1)
        cnt = np.zeros(N // 2 + 1)
        for idx, m in orc.stored_modes(D, N):
            b = bin_of(m)
            if b > N // 2:
                continue
            w = weight(D, N, m)
            c = abs(uh[tuple(mm % N for mm in m)])
            exp[b] += (w / 2 * c * c) if power else w * c
            cnt[b] += 1
        if binning == "average":
            exp = exp / np.maximum(cnt, 1)
        e = float(np.max(np.abs(got - exp)))
        return {"reproduced": e > 1e-9, "detail": f"get_spectrum(D={D},N={N},power={power},{binning}) differs from the per-mode sum by {e:.3g}"}

    return replay


def _single_mode(ck, D, N):
    A, B = z3.Real("A"), z3.Real("B")
    ins0 = [In("u", (1,) + (N,) * D)]
    base = Encoded(lambda u: ex.get_spectrum(u, power=False), ins0, tag="sm")
    modes = [m for m in orc.all_modes(D, N, below_nyquist=True) if any(m) and m > tuple(-x for x in m)]
    if ck.tier != "thorough" and len(modes) > 6:
        modes = modes[:: max(1, len(modes) // 6)]
    from checks.c04 import _field

    for m in modes:
        fld = _field(D, N, m, A, B)
        enc = base.clone_with([In("u", (1,) + (N,) * D, sym_arr=fld)], tag="sm1")
        facts = enc.interp.sound_facts()
        b = bin_of(m)
        for bb in range(N // 2 + 1):
            o = enc.outs[0][0, bb]
            name = f"single/D{D}N{N}/m={'_'.join(map(str, m))}/bin{bb}"
            if bb == b and b <= N // 2:
                ck.add(name, z3.And(sym.rcmp("ge", o, ZERO), sym.rcmp("eq", sym.rmul(o, o), sym.radd(sym.rmul(A, A), sym.rmul(B, B)))), facts, family="single mode a cos(k.x+phi): amplitude a in bin round(|k|)", timeout=120)
            else:
                ck.add(name, sym.equal_goal(o, ZERO), facts, family="single mode: all other bins are empty", timeout=120)


def _channels(ck):
    D, N = 2, 4
    for binning in ("sum", "average"):
        ins = [In("u", (2,) + (N,) * D)]
        gs = lambda x, binning=binning: ex.get_spectrum(x, radial_binning=binning)
        enc = Encoded(lambda u, gs=gs: (gs(u), gs(u[0:1]), gs(u[1:2])), ins, tag="ch" + binning[0])
        facts = enc.interp.sound_facts()

        def replay(model, gs=gs):
            rng = np.random.default_rng(2)
            u = jnp.asarray(rng.normal(size=(2,) + (N,) * D))
            a, b0, b1 = gs(u), gs(u[0:1]), gs(u[1:2])
            e = float(jnp.max(jnp.abs(a - jnp.concatenate([b0, b1]))))
            return {"reproduced": e > 1e-9, "detail": f"get_spectrum(radial_binning={binning!r}) of a 2-channel state vs the channels one at a time: max deviation {e:.3g}"}

        for b in range(N // 2 + 1):
            ck.add(f"channels/{binning}/ch0/bin{b}", sym.equal_goal(enc.outs[0][0, b], enc.outs[1][0, b]), facts, family="channels are treated independently", replay=replay)
            ck.add(f"channels/{binning}/ch1/bin{b}", sym.equal_goal(enc.outs[0][1, b], enc.outs[2][0, b]), facts, family="channels are treated independently", replay=replay)


def _bin_edge_replay(vals, meta):
    """real get_spectrum (sub-process in the session precision of the witness) on the single mode the solver names"""

    def replay(model):
        import subprocess
        import sys

        D = meta["D"]
        k = [int(vals[f"k{i}"]) for i in range(D)] if isinstance(vals, dict) else None
        if not k or max(k) == 0:
            return {"reproduced": False, "detail": f"no usable witness: {vals}"}
        N = 2 * max(k) + 2
        if N**D > 3e7:
            return {"reproduced": False, "detail": f"witness needs a {N}^{D} grid: too large to replay"}
        prog = f"""
import sys, math
sys.path.insert(0, '/repo')
import jax
jax.config.update('jax_enable_x64', {meta['dtype'] == 'f64'})
import jax.numpy as jnp, exponax as ex
k = {k}; D = {D}; N = {N}
g = ex.make_grid(D, 2 * math.pi, N)
u = jnp.cos(sum(kk * g[i] for i, kk in enumerate(k)))[None]
s = ex.get_spectrum(u, power=False)[0]
r2 = sum(x * x for x in k); b = math.isqrt(r2); b = b if 4 * r2 < (2 * b + 1) ** 2 else b + 1
got = int(jnp.argmax(s))
print('BIN', got, b)
"""
        out = subprocess.run([sys.executable, "-c", prog], capture_output=True, text=True, timeout=900).stdout
        line = [ln for ln in out.splitlines() if ln.startswith("BIN")]
        if not line:
            return {"reproduced": False, "detail": "replay program failed"}
        got, want_ = map(int, line[0].split()[1:])
        return {"reproduced": got != want_ and want_ <= N // 2, "detail": f"single mode k={k} on N={N} ({meta['dtype']}): get_spectrum puts it in bin {got}, round(|k|) = {want_}"}

    return replay


def _bin_edges_all_N(ck):
    """float bin membership == exact integer membership for |k_i| <= 128 (N <= 256)"""
    # the FP query below is generated for the bin test AS WRITTEN IN THE CURRENT SOURCE: the statements of
    # get_spectrum that define the test are read from the AST; any other shape makes this part inconclusive
    import ast
    import inspect
    import textwrap

    want = {
        "wavenumbers_norm": "jnp.linalg.norm(wavenumbers_mesh, axis=0, keepdims=True)",
        "dk": "wavenumbers_1d[0, 1] - wavenumbers_1d[0, 0]",
        "lower_limit": "k - dk / 2",
        "upper_limit": "k + dk / 2",
        "mask": "(wavenumbers_norm[0] >= lower_limit) & (wavenumbers_norm[0] < upper_limit)",
    }
    try:
        tree = ast.parse(textwrap.dedent(inspect.getsource(ex.spectral.get_spectrum)))
        got = {}
        for n in ast.walk(tree):
            if isinstance(n, ast.Assign) and len(n.targets) == 1 and isinstance(n.targets[0], ast.Name) and n.targets[0].id in want:
                got.setdefault(n.targets[0].id, []).append(ast.unparse(n.value))
        diff = {k: got.get(k) for k, v in want.items() if got.get(k) != [ast.unparse(ast.parse(v, mode="eval").body)]}
    except (OSError, SyntaxError, TypeError) as ex_:
        diff = {"source": repr(ex_)}
    if diff:
        ck.add_direct("E2/bin-edge/encoding", "unknown", family="radial bin test in floats = exact integer test (all N<=256)", detail=f"the bin test of the current get_spectrum is not in the shape this encoder translates: {diff}")
        return
    W = 32
    bv = lambda n: f"(_ bv{n} {W})"
    items = []
    for D in (2, 3):
        for dtype, (eb, sb) in (("f32", (8, 24)), ("f64", (11, 53))):
            ks = [f"k{i}" for i in range(D)]
            decl = "".join(f"(declare-const {k} (_ BitVec {W}))\n(assert (bvule {k} {bv(128)}))\n" for k in ks) + f"(declare-const b (_ BitVec {W}))\n(assert (bvule b {bv(128)}))\n"
            n = "(bvadd " + " ".join(f"(bvmul {k} {k})" for k in ks) + ")" if D > 1 else f"(bvmul {ks[0]} {ks[0]})"
            tofp = f"(_ to_fp {eb} {sb})"
            # norm = sqrt(sum of squares) in the array dtype (squares and the sum are exact below 2^24)
            norm = f"(fp.sqrt RNE ({tofp} RNE {n}))"
            kf = f"({tofp} RNE b)"
            half = f"((_ to_fp {eb} {sb}) RNE 0.5)"
            lo = f"(fp.sub RNE {kf} {half})"
            hi = f"(fp.add RNE {kf} {half})"
            dec = f"(and (fp.geq {norm} {lo}) (fp.lt {norm} {hi}))"
            four_n = f"(bvmul {bv(4)} {n})"
            tm = f"(bvsub (bvmul {bv(2)} b) {bv(1)})"
            tp = f"(bvadd (bvmul {bv(2)} b) {bv(1)})"
            exact = f"(and (or (= b {bv(0)}) (bvule (bvmul {tm} {tm}) {four_n})) (bvult {four_n} (bvmul {tp} {tp})))"
            txt = "(set-logic QF_BVFP)\n" + decl + f"(assert (not (= {dec} {exact})))\n(check-sat)\n(get-value ({' '.join(ks)} b))\n"
            items.append((f"bin-edge/D{D}/{dtype}", txt, {"D": D, "dtype": dtype}))
    res = pyk.solve_all(items, timeout_s=600 if ck.tier == "thorough" else 240)
    for (name, txt, meta), (st, vals, t, raw) in zip(items, res):
        ck.add_direct(f"E2/{name}", st, family="radial bin test in floats = exact integer test (all N<=256)", detail=f"{meta} -> {st} {vals} ({t:.1f}s)", t=t,
                      replay=_bin_edge_replay(vals, meta))
        ck.obls[-1].text = ck.obls[-1].goal_text = txt
