"""C07 -- steppers are differentiable with correct derivatives.

The derivative programs are jaxprs too: make_jaxpr of jax.jvp / jax.vjp applied
to the real exponax code is executed symbolically.
 (1) linear steppers: JVP(u, t) = stepper(t)  (the Jacobian is the map itself).
 (2) exact finite differences: a step that is a polynomial of degree <= 2 in u
     (ETDRK1 on quadratic terms) satisfies [P(u+t) - P(u-t)]/2 = JVP(u, t)
     identically; degree <= 4 (ETDRK2) with the 5-point stencil.
 (3) adjointness: <ct, JVP(u,t)> = <VJP(u,ct), t> for symbolic u, t, ct.
 (4) parameters: d/d(dt), d/d(nu), d/dc of linear steppers equal the closed
     forms Lambda E u, dt (d Lambda/d nu) E u, ... through the SAME Ackermann exp
     symbols the JVP rule emits; d/d(scale) of the nonlinear terms.
 (5) the same through rollouts (n = 2).
 (6) finiteness: the derivative jaxprs contain no undefined concrete value and
     every symbolic divisor is non-zero under L > 0 (guards where(lap==0,...)).
"""
from __future__ import annotations

import os

from fractions import Fraction

import numpy as np
import z3

import exponax as ex
import jax
import jax.numpy as jnp

from vlib import oracle as orc
from vlib import sym
from vlib.eqinst import Encoded, In
from vlib.sym import CTX, Cx, ONE, ZERO

S = ex.stepper
N = 6


def _inner(a, b):
    return sym.rsum([sym.rmul(a[i], b[i]) for i in np.ndindex(a.shape)])


def build(ck):
    ck.encode_fn(ex.BaseStepper.step, ex.rollout, S.Diffusion, S.Advection, S.Dispersion, S.Burgers, S.KortewegDeVries, S.KuramotoSivashinsky, S.NavierStokesVorticity, S.Wave, ex.nonlin_fun.VorticityConvection2d, ex.nonlin_fun.Leray)
    ck.bound(f"1D N={N} for the stepper classes listed, 2D N={N} for the vorticity stepper; ETDRK orders 0-2; rollout n=2; states, tangents, cotangents symbolic; parameters symbolic")
    ck.assume("real arithmetic; JAX's differentiation rules are part of the program under test (the JVP/VJP jaxprs are what is executed)")
    ck.out_of_scope("degree > 4 steps by exact stencil; derivatives w.r.t. PDE coefficients of nonlinear steppers are covered in two links: symbol -> ETDRK coefficients (etdrk-coefficients, all orders) and coefficient -> symbol (params, linear steppers)")
    only = getattr(ck, "only", None)
    want = lambda t: (not only) or only in t
    thorough = ck.tier == "thorough"
    lin = [("Diffusion", lambda: S.Diffusion(1, 1.0, N, 0.1), 1), ("Advection", lambda: S.Advection(1, 1.0, N, 0.1), 1), ("Dispersion", lambda: S.Dispersion(1, 1.0, N, 0.1), 1), ("Wave", lambda: S.Wave(1, 1.0, N, 0.1), 2)]
    for nm, mk, C in lin:
        if want(f"linear/{nm}"):
            _linear_jacobian(ck, nm, mk(), C)
    nl = [("Burgers/order1", lambda: S.Burgers(1, 1.0, N, 0.01, order=1), 1, 2), ("KdV/order1", lambda: S.KortewegDeVries(1, 1.0, N, 0.001, order=1), 1, 2),
          ("KuramotoSivashinsky/order1", lambda: S.KuramotoSivashinsky(1, 1.0, N, 0.01, order=1), 1, 2)]
    if thorough:
        nl.append(("Burgers/order2", lambda: S.Burgers(1, 1.0, N, 0.01, order=2), 1, 4))
    for nm, mk, C, deg in nl:
        if want(f"stencil/{nm}"):
            _stencil(ck, nm, mk(), C, deg)
        if want(f"adjoint/{nm}"):
            _adjoint(ck, nm, mk(), (C, N))
    if want("adjoint/NavierStokesVorticity"):
        _adjoint(ck, "NavierStokesVorticity/order1", S.NavierStokesVorticity(2, 1.0, N, 0.01, order=1), (1, N, N), stretch=not thorough)
    if want("adjoint/rollout"):
        st = S.Burgers(1, 1.0, N, 0.01, order=1)
        _adjoint(ck, "rollout(Burgers,2)", ex.repeat(st, 2), (1, N))
    if want("params"):
        _parameters(ck)
    if want("etdrk-coefficients"):
        # M = 16 is the default contour (the tangent programs of code and documentation coincide term by term there);
        # M = 2 keeps the rational identities small enough for nlsat when they do NOT coincide syntactically
        for M in (16, 2):
            for order in (1, 2, 3, 4):
                _etdrk_coefficient_derivatives(ck, order, M=M)
    if want("finite"):
        _finiteness(ck)


def _linear_jacobian(ck, nm, st, C):
    shape = (C, N)
    ins = [In("u", shape), In("t", shape)]
    enc = Encoded(lambda u, t: (jax.jvp(st, (u,), (t,))[1], st(t)), ins, tag="lj")
    enc.validate(ck, what=f"linear/{nm}")
    enc.compare(ck, f"linear/{nm}/jvp=map", 0, enc.outs[1], [], family="linear steppers: JVP(u,t) = stepper(t)")
    # reverse mode is the adjoint
    ins3 = [In("u", shape), In("t", shape), In("ct", shape)]
    enc3 = Encoded(lambda u, t, ct: (jax.jvp(st, (u,), (t,))[1], jax.vjp(st, u)[1](ct)[0]), ins3, tag="lja")
    ck.add(f"linear/{nm}/adjoint", sym.equal_goal(_inner(ins3[2].sym, enc3.outs[0]), _inner(enc3.outs[1], ins3[1].sym)), [], family="reverse mode is the adjoint of forward mode", timeout=120)


def _stencil(ck, nm, st, C, deg):
    shape = (C, N)
    ins = [In("u", shape), In("t", shape)]
    enc = Encoded(lambda u, t: jax.jvp(st, (u,), (t,))[1], ins, tag="sj")
    enc.validate(ck, what=f"stencil/{nm}")
    u, t = ins[0].sym, ins[1].sym
    base = Encoded(lambda v: st(v), [In("v", shape, sym_arr=u)], tag="sp")

    def P(k):
        arr = np.vectorize(lambda a, b: sym.radd(a, sym.rmul(orc.fl(k), b)), otypes=[object])(u, t)
        return base.clone_with([In("v", shape, sym_arr=arr)], tag=f"sp{k}").outs[0]

    if deg <= 2:
        p1, m1 = P(1), P(-1)
        fd = np.vectorize(lambda a, b: sym.rmul(orc.fl(Fraction(1, 2)), sym.rsub(a, b)), otypes=[object])(p1, m1)
    else:
        p1, m1, p2, m2 = P(1), P(-1), P(2), P(-2)
        fd = np.vectorize(lambda a, b, c, d: sym.rmul(orc.fl(Fraction(1, 12)), sym.radd(sym.rsub(sym.rmul(orc.fl(8), a), sym.rmul(orc.fl(8), b)), sym.rsub(d, c))), otypes=[object])(p1, m1, p2, m2)
    for i in np.ndindex(shape):
        ck.add(f"stencil/{nm}/{'_'.join(map(str, i))}", sym.equal_goal(enc.outs[0][i], fd[i]), [], family=f"JVP = exact central difference (step is a polynomial of degree <= {deg})", timeout=180, replay=_fd_replay(st, shape))
    ck.add(f"stencil/{nm}/twin", sym.equal_goal(enc.outs[0][(0, 1)], sym.rmul(orc.fl(2), fd[(0, 1)])), [], family="C07/twin", expect="sat", timeout=180)


def _fd_replay(st, shape):
    def replay(model):
        rng = np.random.default_rng(0)
        u = jnp.asarray(rng.normal(size=shape)) * 0.3
        t = jnp.asarray(rng.normal(size=shape))
        jv = jax.jvp(st, (u,), (t,))[1]
        h = 1e-5
        fd = (st(u + h * t) - st(u - h * t)) / (2 * h)
        e = float(jnp.max(jnp.abs(jv - fd)))
        ct = jnp.asarray(rng.normal(size=shape))
        a = float(jnp.sum(ct * jv))
        b = float(jnp.sum(jax.vjp(st, u)[1](ct)[0] * t))
        return {"reproduced": e > 1e-5 or abs(a - b) > 1e-8 or not bool(jnp.all(jnp.isfinite(jv))), "detail": f"JVP vs central difference {e:.3g}; <ct,JVP> - <VJP,t> = {a - b:.3g}"}

    return replay


def _adjoint(ck, nm, fn, shape, stretch=False):
    ins = [In("u", shape), In("t", shape), In("ct", shape)]
    enc = Encoded(lambda u, t, ct: (jax.jvp(fn, (u,), (t,))[1], jax.vjp(fn, u)[1](ct)[0]), ins, tag="ad")
    enc.validate(ck, what=f"adjoint/{nm}", max_components=6)
    lhs = _inner(ins[2].sym, enc.outs[0])
    rhs = _inner(enc.outs[1], ins[1].sym)
    ck.add(f"adjoint/{nm}", sym.equal_goal(lhs, rhs), [], family="reverse mode is the adjoint of forward mode", timeout=300, stretch=stretch, replay=_fd_replay(fn, shape))


def _reference_coefficients(order, M):
    """the documented Cox-Matthews / Kassam-Trefethen coefficients as an independent jnp program: dt times the
    M-point contour mean of the documented integrands on the circle of radius 1 around dt*lambda (exponax stores
    them in this order; ETDRK3's fourth coefficient carries the documented factor 4)"""
    roots = ex.etdrk.roots_of_unity(M)  # the documented contour exp(2 pi i (j - 1/2)/M) (its values are C02's obligation)

    def ref(dt, lam):
        # written as the documentation states it: sum over the contour points of the integrand, divided by M, times dt
        L_dt = lam * dt
        acc = None
        for j in range(M):
            lr = 1.0 * roots[j] + L_dt
            E, Eh = jnp.exp(lr), (jnp.exp(lr / 2) if order >= 3 else None)
            phi1 = (E - 1) / lr
            if order >= 3:
                h = (Eh - 1) / lr
                a = (-4 - lr + E * (4 - 3 * lr + lr**2)) / lr**3
                b = (2 + lr + E * (-2 + lr)) / lr**3
                c = (-4 - 3 * lr - lr**2 + E * (4 - lr)) / lr**3
            g = {1: lambda: [phi1], 2: lambda: [phi1, (E - 1 - lr) / lr**2], 3: lambda: [h, phi1, a, (4.0 * (2.0 + lr + E * (-2 + lr))) / lr**3, c], 4: lambda: [h, h, h, a, b, c]}[order]()
            acc = [jnp.zeros_like(x) + x for x in g] if acc is None else [s_ + x for s_, x in zip(acc, g)]
        lead = (jnp.exp(dt * lam),) + ((jnp.exp(0.5 * dt * lam),) if order >= 3 else ())
        return lead + tuple(dt * (s_ / M) for s_ in acc)

    return ref


def _etdrk_coefficient_derivatives(ck, order, M=16):
    """forward-mode derivative of every stored ETDRK-p coefficient w.r.t. the linear symbol and w.r.t. dt equals
    the derivative of the documented contour formula (both JVP programs are executed symbolically; they share the
    Ackermannised exponentials of the contour points).  Covers lambda = 0 and complex symbols."""
    from vlib.modular import CLS, leaf_names

    fam = f"d(ETDRK{order} coefficients)/d(symbol, dt) = derivative of the documented contour formula"
    names = leaf_names(order)
    ins = [In("dt", (), lo=0.05, hi=0.5), In("lam", (1, 1), "complex", lo=-2.0, hi=2.0), In("tdt", (), lo=-1.0, hi=1.0), In("tlam", (1, 1), "complex", lo=-1.0, hi=1.0)]
    code = lambda dt, lam: tuple(getattr(CLS[order](dt, lam, ex.nonlin_fun.ZeroNonlinearFun(1, 4), num_circle_points=M), n) for n in names)
    ref = _reference_coefficients(order, M)

    def f(dt, lam, tdt, tlam):
        _, tc = jax.jvp(code, (dt, lam), (tdt, tlam))
        _, tr = jax.jvp(ref, (dt, lam), (tdt, tlam))
        return tuple(tc) + tuple(tr)

    enc = Encoded(f, ins, tag=f"ec{order}m{M}")
    enc.validate(ck, what=f"etdrk-coefficients/order{order}/M{M}")
    tag = f"etdrk-coefficients/order{order}/M{M}"
    n = len(names)
    pre = [ins[0].s > 0]
    # staged congruence: the exponentials of the code's JVP program and of the documented program are paired by their
    # arguments (obligation: equal arguments); equal results are then assumed for the tangent identities
    import random
    from vlib.numeval import NumEval

    calls = enc.interp.calls.get("exp", [])
    ne = NumEval(enc.random_values(random.Random(11)), ack=enc.interp.ackdefs)
    half = len(calls) // 2
    same, subst, nonzero = [], [], []
    if len(calls) % 2 == 0:
        for a, b in zip(calls[:half], calls[half:]):
            if a["arg"].shape != b["arg"].shape:
                continue
            for i in np.ndindex(a["arg"].shape):
                xa, xb = sym.asc(a["arg"][i]), sym.asc(b["arg"][i])
                if abs(complex(ne.scalar(xa)) - complex(ne.scalar(xb))) > 1e-9:
                    continue
                ck.add(f"{tag}/exp-arg/{len(same)}", sym.equal_goal(xa, xb), pre, family=fam + " (equal contour points)", replay=_coef_derivative_replay(order, M, 0, names[-1]))
                oa, ob = sym.asc(a["out"][i]), sym.asc(b["out"][i])
                if not (sym.is_conc(oa) and sym.is_conc(ob)):
                    same += [sym.zr(oa.re) == sym.zr(ob.re), sym.zr(oa.im) == sym.zr(ob.im)]
                    for x, y in ((ob.re, oa.re), (ob.im, oa.im)):
                        if z3.is_expr(sym.zr(x)) and z3.is_const(sym.zr(x)) and sym.zr(x).decl().kind() == z3.Z3_OP_UNINTERPRETED:
                            subst.append((sym.zr(x), sym.zr(y)))
                if a["arg"].ndim == 3:  # a contour point: the coefficients are only defined when no contour point is the origin
                    nonzero.append(sym.zr(xa.re) * sym.zr(xa.re) + sym.zr(xa.im) * sym.zr(xa.im) > 0)
    pre = pre + nonzero

    def goal_of(x, y):
        g = sym.equal_goal(x, y)
        if z3.is_expr(g) and subst:  # congruence: the documented program's exponentials are the code's (arguments proved equal above)
            g = z3.simplify(z3.substitute(g, *subst))
            if z3.is_true(g):
                return True
            if z3.is_false(g):
                return False
        return g
    for k, nm_ in enumerate(names):
        got, want_ = enc.outs[k], enc.outs[n + k]
        if got.shape != want_.shape:
            ck.add(f"{tag}/{nm_}/shape", False, [], family=fam, replay=_coef_derivative_replay(order, M, k, nm_))
            continue
        for i in np.ndindex(got.shape):
            ck.add(f"{tag}/{nm_}/{'_'.join(map(str, i))}", goal_of(got[i], want_[i]), pre + same, family=fam, timeout=120, replay=_coef_derivative_replay(order, M, k, nm_))
    # twin: the tangent w.r.t. the symbol is not identically zero
    ck.add(f"{tag}/twin", sym.equal_goal(enc.outs[0][0, 0], Cx(ZERO, ZERO)), pre + same, family="C07/twin", expect="sat")


def _coef_derivative_replay(order, M, k, nm_):
    """central finite differences of the real constructor at stress points (zero, real, complex symbols)"""

    def replay(model):
        from vlib.modular import CLS

        worst, where = 0.0, None
        for M_ in (16, M):
          for lam0 in (0.0 + 0.0j, -0.7 + 0.0j, 0.3 + 2.0j, 0.0 + 0.4j):
            for dt0 in (0.5, 1.0):
                coef = lambda dt, lam: getattr(CLS[order](dt, jnp.asarray([[lam]], dtype=jnp.complex128), ex.nonlin_fun.ZeroNonlinearFun(1, 4), num_circle_points=M_), nm_)[0, 0]
                for what, tang, fd in (("d/d lambda", (0.0, 1.0 + 0.0j), lambda h: (coef(dt0, lam0 + h) - coef(dt0, lam0 - h)) / (2 * h)), ("d/d dt", (1.0, 0.0j), lambda h: (coef(dt0 + h, lam0) - coef(dt0 - h, lam0)) / (2 * h))):
                    _, t = jax.jvp(lambda d, l: coef(d, l), (jnp.asarray(dt0), jnp.asarray(lam0)), (jnp.asarray(tang[0]), jnp.asarray(tang[1])))
                    ref = fd(1e-5)
                    e = abs(complex(t) - complex(ref)) / (1e-6 + abs(complex(ref)))
                    if e > worst:
                        worst, where = e, f"{what} of {nm_} at lambda={lam0}, dt={dt0}, {M_} contour points: jvp {complex(t):.8g} vs central differences {complex(ref):.8g}"
        return {"reproduced": worst > 1e-5, "detail": f"ETDRK{order}: {where} (relative deviation {worst:.3g})"}

    return replay


def _parameters(ck):
    """forward-mode derivative w.r.t. dt and PDE coefficients, linear steppers (order 0) and nonlinear scale (order 1 keeps coefficients dt-dependent: excluded)"""
    spec = (1, N // 2 + 1)
    fam = "parameter derivatives equal the closed forms"
    # Diffusion: out_k = exp(dt * (-nu k^2)) u_k ; d/d nu = -dt k^2 E u ; d/d dt = -nu k^2 E u
    ins = [In("L", (), lo=0.5, hi=2.0), In("dt", (), lo=0.01, hi=0.1), In("nu", (1,), lo=0.1, hi=1.0), In("uh", spec, "complex")]

    def f(L, dt, nu, uh):
        g = lambda dt_, nu_: S.Diffusion(1, L, N, dt_, diffusivity=nu_).step_fourier(uh)
        _, d_dt = jax.jvp(lambda x: g(x, nu), (dt,), (jnp.ones_like(dt),))
        _, d_nu = jax.jvp(lambda x: g(dt, x), (nu,), (jnp.ones_like(nu),))
        return d_dt, d_nu

    enc = Encoded(f, ins, tag="pd")
    enc.validate(ck, what="params/diffusion")
    L, dt, nu, uh = ins[0].s, ins[1].s, ins[2].sym, ins[3].sym
    W = orc.two_pi_over(L)
    calls = enc.interp.calls["exp"]
    for idx, m in orc.stored_modes(1, N):
        k2 = sym.rpow_int(sym.rmul(orc.fl(m[0]), W), 2)
        # find the Ackermann symbol of exp(dt * Lambda_k) among the calls (all calls share the argument; take the first)
        E = sym.asc(calls[0]["out"][(0,) + idx])
        arg = sym.asc(calls[0]["arg"][(0,) + idx])
        ck.add(f"params/diffusion/exp-arg/{idx[0]}", sym.equal_goal(arg, Cx(sym.rneg(sym.rmul(sym.rmul(dt, nu[0]), k2)), ZERO)), [L > 0], family=fam)
        same = []
        for c in calls[1:]:
            o, a = sym.asc(c["out"][(0,) + idx]), sym.asc(c["arg"][(0,) + idx])
            if not sym.is_conc(o):
                ck.add(f"params/diffusion/exp-arg-same/{idx[0]}/{len(same)}", sym.equal_goal(a, arg), [L > 0], family=fam)
                same += [o.re == E.re, o.im == E.im]
        Eu = sym.cmul(E, sym.asc(uh[(0,) + idx]))
        ck.add(f"params/diffusion/d_dt/{idx[0]}", sym.equal_goal(enc.outs[0][(0,) + idx], sym.cscale(Eu, sym.rneg(sym.rmul(nu[0], k2)))), [L > 0] + same, family=fam)
        ck.add(f"params/diffusion/d_nu/{idx[0]}", sym.equal_goal(enc.outs[1][(0,) + idx], sym.cscale(Eu, sym.rneg(sym.rmul(dt, k2)))), [L > 0] + same, family=fam)
    # Advection: d/dc out_k = -i k dt E u
    ins = [In("L", (), lo=0.5, hi=2.0), In("dt", (), lo=0.01, hi=0.1), In("c", (1,), lo=0.1, hi=1.0), In("uh", spec, "complex")]
    enc = Encoded(lambda L, dt, c, uh: jax.jvp(lambda x: S.Advection(1, L, N, dt, velocity=x).step_fourier(uh), (c,), (jnp.ones_like(c),))[1], ins, tag="pa")
    L, dt, c, uh = ins[0].s, ins[1].s, ins[2].sym, ins[3].sym
    W = orc.two_pi_over(L)
    calls = enc.interp.calls["exp"]
    for idx, m in orc.stored_modes(1, N):
        E = sym.asc(calls[0]["out"][(0,) + idx])
        same = []
        for cc in calls[1:]:
            o = sym.asc(cc["out"][(0,) + idx])
            if not sym.is_conc(o) and not sym.is_conc(E):
                ck.add(f"params/advection/exp-arg-same/{idx[0]}/{len(same)}", sym.equal_goal(sym.asc(cc["arg"][(0,) + idx]), sym.asc(calls[0]["arg"][(0,) + idx])), [L > 0], family=fam)
                same += [o.re == E.re, o.im == E.im]
        k = sym.rmul(orc.fl(m[0]), W)
        fac = Cx(ZERO, sym.rneg(sym.rmul(k, dt)))
        ck.add(f"params/advection/d_c/{idx[0]}", sym.equal_goal(enc.outs[0][(0,) + idx], sym.cmul(fac, sym.cmul(E, sym.asc(uh[(0,) + idx])))), [L > 0] + same, family=fam)
    # nonlinear scale: d/db of the convection term is the term with b = 1
    ins = [In("b", (), lo=0.2, hi=1.0), In("uh", spec, "complex")]
    do = ex.spectral.build_derivative_operator(1, 1.0, N)
    mk = lambda b: ex.nonlin_fun.ConvectionNonlinearFun(1, N, derivative_operator=do, dealiasing_fraction=2 / 3, scale=b, single_channel=True, conservative=True)
    enc = Encoded(lambda b, uh: (jax.jvp(lambda x: mk(x)(uh), (b,), (jnp.ones_like(b),))[1], mk(1.0)(uh)), ins, tag="pn")
    enc.compare(ck, "params/convection/d_scale", 0, enc.outs[1], [], family=fam)


def _finite_replay(nm, mk, shape):
    """a divisor of the derivative program can vanish: evaluate the real derivatives at the model's state (and at
    the zero / constant states) and report only if they are not finite while the step itself is"""

    def replay(model):
        from fractions import Fraction as F

        L = float(model["L"]) if isinstance(model.get("L"), F) else 1.3
        states = []
        u = np.zeros(shape)
        for i in np.ndindex(shape):
            v = model.get("u" + "".join(f"_{k}" for k in i))
            u[i] = float(v) if isinstance(v, F) else 0.0
        states += [u, np.zeros(shape), np.full(shape, 0.7)]
        st = mk(L if L > 0 else 1.3)
        for s0 in states:
            s0 = jnp.asarray(s0)
            out = st(s0)
            jv = jax.jvp(st, (s0,), (jnp.ones(shape),))[1]
            vj = jax.vjp(st, s0)[1](jnp.ones(shape))[0]
            if bool(jnp.all(jnp.isfinite(out))) and not (bool(jnp.all(jnp.isfinite(jv))) and bool(jnp.all(jnp.isfinite(vj)))):
                return {"reproduced": True, "detail": f"{nm}: the step at state {np.asarray(s0).reshape(-1)[:4].tolist()}... is finite but its JVP/VJP is not (NaN/inf)"}
        return {"reproduced": False, "detail": f"{nm}: derivatives finite at the model state and at constant states"}

    return replay


def _finiteness(ck):
    """derivative programs of the steppers with guarded divisions: no concrete undefined value reaches the
    output and every symbolic divisor is non-zero under L > 0"""
    fam = "derivatives are defined wherever the step is (guarded divisions)"
    cases = [
        ("NavierStokesVorticity", lambda L: S.NavierStokesVorticity(2, L, 4, 0.01, order=1), (1, 4, 4)),
        ("Wave", lambda L: S.Wave(1, L, N, 0.1), (2, N)),
        ("Poisson", lambda L: ex.poisson.Poisson(1, L, N), (1, N)),
        ("Burgers", lambda L: S.Burgers(1, L, N, 0.01, order=1), (1, N)),
        ("KortewegDeVries", lambda L: S.KortewegDeVries(1, L, N, 0.001, order=1), (1, N)),
        ("KuramotoSivashinsky", lambda L: S.KuramotoSivashinsky(1, L, N, 0.01, order=1), (1, N)),
        ("KuramotoSivashinsky2D", lambda L: S.KuramotoSivashinsky(2, L, 4, 0.01, order=1), (1, 4, 4)),
        ("GeneralNonlinearStepper", lambda L: ex.stepper.generic.GeneralNonlinearStepper(1, L, N, 0.01, nonlinear_coefficients=(0.1, -1.0, 0.3), order=1), (1, N)),
        ("FisherKPP", lambda L: S.reaction.FisherKPP(1, L, N, 0.01, order=1), (1, N)),
    ]
    for nm, mk, shape in cases:
        ins = [In("L", (), lo=0.5, hi=2.0), In("u", shape), In("ct", shape)]
        p0, d0 = len(CTX.poison), len(CTX.divisors)
        enc = Encoded(lambda L, u, ct, mk=mk: jax.vjp(lambda v: mk(L)(v), u)[1](ct)[0], ins, tag="fin")
        L = ins[0].s
        new_poison = CTX.poison[p0:]
        ck.add(f"finite/{nm}/no-undefined-value-reaches-symbolic-data", len(new_poison) == 0, [], family=fam, replay=lambda m, nm=nm, new_poison=new_poison: {"reproduced": True, "detail": f"{nm}: undefined concrete values in the VJP program: {new_poison[:3]}"})
        divs = []
        seen = set()
        for d in CTX.divisors[d0:]:
            if z3.is_expr(d) and d.get_id() not in seen and not z3.is_rational_value(d):
                seen.add(d.get_id())
                divs.append(d)
        facts = enc.interp.sound_facts()
        for j, d in enumerate(divs[:40]):
            ck.add(f"finite/{nm}/divisor{j}", d != 0, [L > 0] + facts, family=fam, timeout=60, replay=_finite_replay(nm, mk, shape))
        try:
            g = jax.vjp(lambda v: mk(1.3)(v), jnp.ones(shape) * 0.2)[1](jnp.ones(shape))[0]
            ok = bool(jnp.all(jnp.isfinite(g)))
        except Exception:
            ok = False
        ck.add(f"finite/{nm}/concrete-gradient-finite", ok, [], family=fam, replay=lambda m, nm=nm: {"reproduced": True, "detail": f"{nm}: reverse-mode gradient is not finite"})
