"""C08 -- steppers commute with the symmetries of the periodic box.

Lemmas per real nonlinear function (symbolic Hermitian spectra, L and scales
symbolic):  N(T_s u) = T_s N(u) for grid shifts s;  N(Pi u) = Pi N(u) for the
axis swap (with the channel permutation for vector states, and the
pseudo-scalar sign for the 2D vorticity);  N_2D(u (x) 1) = N_1D(u) (x) 1.
Step, all orders (modular): with an opaque nonlinear term that commutes with a
diagonal unitary T, one real ETDRK step commutes with T.  Linear multipliers of
the real isotropic steppers are invariant under the axis swap and reduce to
the 1D multiplier on embedded modes.  Kolmogorov forcing: shifts along the
invariant axis commute, a shift along the forced axis must not (twin).
"""
from __future__ import annotations

from fractions import Fraction

import numpy as np
import z3

import exponax as ex
import jax.numpy as jnp

from checks.c03 import catalogue
from vlib import oracle as orc
from vlib import sym
from vlib.eqinst import Encoded, In
from vlib.jx2smt import hermitian_spectrum
from vlib.modular import Step, amap
from vlib.sym import Cx, ONE, ZERO

NF = ex.nonlin_fun
S = ex.stepper


def _do(L, D, N):
    return ex.spectral.build_derivative_operator(D, L, N)


def shift_spectrum(uh, D, N, s):
    """T_s: u(x) -> u(x - s h): mode m is multiplied by exp(-2 pi i m.s / N)"""
    out = np.empty(uh.shape, dtype=object)
    for idx, m in orc.stored_modes(D, N):
        ph = orc.phase(sum(mm * ss for mm, ss in zip(m, s)), N, -1)
        for c in range(uh.shape[0]):
            out[(c,) + idx] = sym.cmul(sym.asc(uh[(c,) + idx]), ph)
    return out


def build(ck):
    ck.encode_fn(NF.ConvectionNonlinearFun, NF.GradientNormNonlinearFun, NF.PolynomialNonlinearFun, NF.GeneralNonlinearFun, NF.VorticityConvection2d, NF.VorticityConvection2dKolmogorov, NF.ProjectedConvection3d,
                 S.Burgers, S.KuramotoSivashinsky, S.NavierStokesVorticity, ex.etdrk.ETDRK1, ex.etdrk.ETDRK2, ex.etdrk.ETDRK3, ex.etdrk.ETDRK4)
    thorough = ck.tier == "thorough"
    ck.bound("shifts: every shift in 1D N in {6,8}, three shifts in 2D N=6 (thorough: all 36), full Hermitian spectrum (white-noise content); axis swap and embedding: 2D N=6, band-limited spectra; modular step orders 1-4; 3D in the thorough tier")
    ck.assume("real arithmetic; input spectra are rffts of real fields; axis swap on band-limited (Nyquist-free) states, as the property requires for odd-order terms on even grids")
    only = getattr(ck, "only", None)
    want = lambda t: (not only) or only in t
    for D, N in [(1, 6), (1, 8), (2, 6)] + ([(1, 7), (1, 12)] if thorough else []):
        shifts = [(s,) for s in range(1, N)] if D == 1 else ([(1, 0), (0, 1), (2, 3)] if not thorough else [(a, b) for a in range(N) for b in range(N) if (a, b) != (0, 0)][::5])
        for name, C, frac, pins, make, _orac in catalogue(D, N):
            if want(f"shift/{name}/D{D}N{N}"):
                _shift(ck, name, D, N, C, pins, make, shifts)
    if want("shift/kolmogorov"):
        _shift_kolmogorov(ck)
    if thorough and want("shift/3d"):
        for name, C, frac, pins, make, _orac in catalogue(3, 6):
            if name == "projected3d":
                _shift(ck, name, 3, 6, C, pins, make, [(1, 2, 3)], band=1)
    if want("step"):
        for order in (1, 2, 3, 4):
            _step_modular(ck, order)
    for name, C, frac, pins, make, _orac in catalogue(2, 6):
        if want(f"swap/{name}"):
            _swap(ck, name, 6, C, frac, pins, make)
        if C == 1 and name != "vorticity2d" and want(f"embed/{name}"):
            _embed(ck, name, 6, frac, pins)
    if want("multiplier"):
        _multipliers(ck)


def _shift(ck, name, D, N, C, pins, make, shifts, band=None):
    uh = hermitian_spectrum("u", N, D, C, band=band)
    ins = [In("L", (), lo=0.5, hi=2.0)] + [In(p.name, p.shape) for p in pins] + [In("uh", uh.shape, "complex", sym_arr=uh)]
    enc = Encoded(lambda L, *r: make(L, *r[:-1])(r[-1]), ins, tag="sb")
    L = ins[0].s
    for s in shifts:
        tag = f"shift/{name}/D{D}N{N}/s={'_'.join(map(str, s))}"
        enc2 = enc.clone_with(ins[:-1] + [In("uh", uh.shape, "complex", sym_arr=shift_spectrum(uh, D, N, s))], tag="ss")
        want_ = shift_spectrum(enc.outs[0], D, N, s)
        for i in np.ndindex(want_.shape):
            ck.add(f"{tag}/{'_'.join(map(str, i))}", sym.equal_goal(enc2.outs[0][i], want_[i]), [L > 0], family=f"shift equivariance/{name}", timeout=120 if D < 3 else 150,
                   replay=_shift_replay(name, D, N, make, s, len(pins)))
    # twin: a shifted input does not give the unshifted output (component chosen where the output is numerically non-zero)
    import random
    from vlib.numeval import NumEval

    vals = enc.random_values(random.Random(7))
    ne = NumEval(vals, ack=enc.interp.ackdefs)
    # component whose phase under the LAST shift is not 1 (m.s not a multiple of N), with a numerically non-zero output
    modes = {idx: m for idx, m in orc.stored_modes(D, N)}
    s_last = shifts[-1]
    cand = [i for i in np.ndindex(enc.outs[0].shape) if sum(mm * ss for mm, ss in zip(modes[i[1:]], s_last)) % N != 0 and not sym.is_conc(enc.outs[0][i]) and abs(complex(ne.scalar(enc.outs[0][i]))) > 1e-6]
    if cand:
        j = cand[len(cand) // 2]
        ck.add(f"shift/{name}/D{D}N{N}/twin", sym.equal_goal(enc2.outs[0][j], enc.outs[0][j]), [L > 0], family="shift/twin", expect="sat", timeout=120)


def _shift_replay(name, D, N, make, s, npar):
    def replay(model):
        rng = np.random.default_rng(5)
        C = None
        params = [jnp.asarray(rng.uniform(0.3, 1.0, size=())) if True else None for _ in range(npar)]
        # parameter shapes vary; rebuild from the catalogue
        from checks.c03 import catalogue as cat
        for nm, C_, frac, pins, mk, _ in cat(D, N):
            if nm == name:
                C = C_
                params = [jnp.asarray(rng.uniform(0.3, 1.0, size=p.shape)) for p in pins]
        nf = make(1.4, *params)
        u = jnp.asarray(rng.normal(size=(C,) + (N,) * D))
        ur = jnp.roll(u, s, axis=tuple(range(1, D + 1)))
        a = ex.ifft(nf(ex.fft(ur)), num_spatial_dims=D, num_points=N)
        b = jnp.roll(ex.ifft(nf(ex.fft(u)), num_spatial_dims=D, num_points=N), s, axis=tuple(range(1, D + 1)))
        e = float(jnp.max(jnp.abs(a - b)))
        return {"reproduced": e > 1e-9, "detail": f"{name} D={D} N={N}: N(roll(u,{s})) vs roll(N(u),{s}) differ by {e:.3g}"}

    return replay


def _shift_kolmogorov(ck):
    N, k = 6, 1
    uh = hermitian_spectrum("w", N, 2, 1)
    ins = [In("L", (), lo=0.5, hi=2.0), In("g", (), lo=0.5, hi=2.0), In("uh", uh.shape, "complex", sym_arr=uh)]
    enc = Encoded(lambda L, g, uh: NF.VorticityConvection2dKolmogorov(2, N, injection_mode=k, injection_scale=g, derivative_operator=_do(L, 2, N), dealiasing_fraction=2 / 3)(uh), ins, tag="kb")
    L = ins[0].s
    for s, expect in (((1, 0), "unsat"), ((3, 0), "unsat"), ((0, 1), "sat")):
        enc2 = enc.clone_with(ins[:-1] + [In("uh", uh.shape, "complex", sym_arr=shift_spectrum(uh, 2, N, s))], tag="ks")
        want_ = shift_spectrum(enc.outs[0], 2, N, s)
        if expect == "unsat":
            for i in np.ndindex(want_.shape):
                ck.add(f"shift/kolmogorov2d/s={s[0]}_{s[1]}/{'_'.join(map(str, i))}", sym.equal_goal(enc2.outs[0][i], want_[i]), [L > 0], family="shift equivariance/Kolmogorov (invariant axis)")
        else:
            ck.add(f"shift/kolmogorov2d/s={s[0]}_{s[1]}/twin", sym.equal_goal(enc2.outs[0][0, 0, k], want_[0, 0, k]), [L > 0, ins[1].s > 0], family="shift/Kolmogorov forced axis (twin)", expect="sat")


def _step_modular(ck, order):
    """T = multiplication of every channel's mode by a unit complex number theta"""
    st = Step(order, (2, 1), tag=f"sm{order}")
    c, s = z3.Real("th_c"), z3.Real("th_s")
    theta = Cx(c, s)
    T = lambda arr: amap(lambda v: sym.cmul(sym.asc(v), theta), arr)
    out2 = st.related(ck, f"step/order{order}", T(st.uh), T, T, family=f"ETDRK step commutes with a diagonal unitary/order{order}", assumptions=[c * c + s * s == 1])
    want_ = T(st.out)
    for i in np.ndindex(want_.shape):
        ck.add(f"step/order{order}/out/{'_'.join(map(str, i))}", sym.equal_goal(out2[i], want_[i]), [c * c + s * s == 1], family=f"ETDRK step commutes with a diagonal unitary/order{order}")


def _two_sided(arr, N, m):
    return orc.half_lookup(arr, m, N)


def _swap_spectrum(uh, N, C, K, perm, sign=1):
    """(Pi u)_c(m0, m1) = sign * u_{perm(c)}(m1, m0) on the band |m| <= K"""
    out = np.empty(uh.shape, dtype=object)
    for idx, m in orc.stored_modes(2, N):
        for c in range(C):
            if max(abs(x) for x in m) > K:
                out[(c,) + idx] = Cx(ZERO, ZERO)
            else:
                v = _two_sided(uh[perm[c]], N, (m[1], m[0]))
                out[(c,) + idx] = v if sign == 1 else sym.cneg(v)
    return out


def _swap(ck, name, N, C, frac, pins, make):
    D = 2
    K = orc.retained_band(N, frac)
    uh = hermitian_spectrum("u", N, D, C, band=K)
    perm = [1, 0] if name.startswith("conv/multi") else list(range(C))  # only velocity channels are permuted with the axes
    sign = -1 if name == "vorticity2d" else 1
    ins = [In("L", (), lo=0.5, hi=2.0)] + [In(p.name, p.shape) for p in pins] + [In("uh", uh.shape, "complex", sym_arr=uh)]
    enc = Encoded(lambda L, *r: make(L, *r[:-1])(r[-1]), ins, tag="wb")
    enc2 = enc.clone_with(ins[:-1] + [In("uh", uh.shape, "complex", sym_arr=_swap_spectrum(uh, N, C, K, perm, sign))], tag="ws")
    want_ = _swap_spectrum(enc.outs[0], N, C, K, perm, sign)
    L = ins[0].s
    for i in np.ndindex(want_.shape):
        ck.add(f"swap/{name}/N{N}/{'_'.join(map(str, i))}", sym.equal_goal(enc2.outs[0][i], want_[i]), [L > 0], family=f"axis-swap equivariance/{name}", timeout=120,
               replay=_swap_replay(name, N, C, K, perm, sign, make, pins))


def _band_limit(u, D, N, K):
    """project a real field onto the modes with max-norm wavenumber <= K (numpy, independent of the code under test)"""
    uh = np.fft.fftn(np.asarray(u), axes=tuple(range(1, D + 1)))
    k = np.fft.fftfreq(N, 1.0 / N)
    grids = np.meshgrid(*([k] * D), indexing="ij")
    keep = np.ones((N,) * D, dtype=bool)
    for g in grids:
        keep &= np.abs(g) <= K
    return jnp.asarray(np.real(np.fft.ifftn(uh * keep, axes=tuple(range(1, D + 1)))))


def _swap_replay(name, N, C, K, perm, sign, make, pins):
    def replay(model):
        rng = np.random.default_rng(11)
        params = [jnp.asarray(rng.uniform(0.3, 1.0, size=p.shape)) for p in pins]
        nf = make(1.4, *params)
        u = _band_limit(rng.normal(size=(C, N, N)), 2, N, K)
        Pi = lambda w: sign * jnp.swapaxes(w, 1, 2)[jnp.asarray(perm)]
        phys = lambda w: ex.ifft(nf(ex.fft(w)), num_spatial_dims=2, num_points=N)
        a, b = phys(Pi(u)), Pi(phys(u))
        e = float(jnp.max(jnp.abs(a - b)))
        return {"reproduced": e > 1e-9, "detail": f"{name} 2D N={N}: N(Pi u) vs Pi N(u) differ by {e:.3g} on a random state band-limited to |k|<={K}"}

    return replay


def _embed(ck, name, N, frac, pins):
    """2D single-channel term on a state constant along one axis = 1D term (x) 1"""
    cat1 = {nm: (mk, pi) for nm, C, fr, pi, mk, _ in catalogue(1, N)}
    cat2 = {nm: (mk, pi) for nm, C, fr, pi, mk, _ in catalogue(2, N)}
    mk1, _ = cat1[name]
    mk2, _ = cat2[name]
    u1 = hermitian_spectrum("u", N, 1, 1)
    for axis in (0, 1):
        u2 = np.empty((1, N, N // 2 + 1), dtype=object)
        for i in np.ndindex(u2.shape):
            u2[i] = Cx(ZERO, ZERO)
        for idx, m in orc.stored_modes(2, N):
            if axis == 1 and m[0] == 0:
                u2[(0,) + idx] = sym.cscale(sym.asc(u1[0, m[1]]), orc.fl(N))
            if axis == 0 and m[1] == 0:
                u2[(0,) + idx] = sym.cscale(orc.half_lookup(u1[0], (m[0],), N), orc.fl(N))
        ins = [In("L", (), lo=0.5, hi=2.0)] + [In(p.name, p.shape) for p in pins] + [In("u1", u1.shape, "complex", sym_arr=u1), In("u2", u2.shape, "complex", sym_arr=u2)]

        def f(L, *r):
            ps, a, b = r[:-2], r[-2], r[-1]
            return mk1(L, *ps)(a), mk2(L, *ps)(b)

        enc = Encoded(f, ins, tag="em")
        o1, o2 = enc.outs
        want_ = np.empty(o2.shape, dtype=object)
        for idx, m in orc.stored_modes(2, N):
            if axis == 1 and m[0] == 0:
                want_[(0,) + idx] = sym.cscale(sym.asc(o1[0, m[1]]), orc.fl(N))
            elif axis == 0 and m[1] == 0:
                want_[(0,) + idx] = sym.cscale(orc.half_lookup(o1[0], (m[0],), N), orc.fl(N))
            else:
                want_[(0,) + idx] = Cx(ZERO, ZERO)
        for i in np.ndindex(want_.shape):
            ck.add(f"embed/{name}/N{N}/axis{axis}/{'_'.join(map(str, i))}", sym.equal_goal(o2[i], want_[i]), [ins[0].s > 0], family=f"embedding 1D in 2D/{name}", timeout=120,
                   replay=_embed_replay(name, N, axis, mk1, mk2, pins))


def _embed_replay(name, N, axis, mk1, mk2, pins):
    def replay(model):
        rng = np.random.default_rng(13)
        params = [jnp.asarray(rng.uniform(0.3, 1.0, size=p.shape)) for p in pins]
        n1, n2 = mk1(1.4, *params), mk2(1.4, *params)
        u1 = jnp.asarray(rng.normal(size=(1, N)))
        u2 = jnp.broadcast_to(u1[:, :, None] if axis == 0 else u1[:, None, :], (1, N, N))
        a = ex.ifft(n2(ex.fft(u2)), num_spatial_dims=2, num_points=N)
        b1 = ex.ifft(n1(ex.fft(u1)), num_spatial_dims=1, num_points=N)
        b = jnp.broadcast_to(b1[:, :, None] if axis == 0 else b1[:, None, :], (1, N, N))
        e = float(jnp.max(jnp.abs(a - b)))
        return {"reproduced": e > 1e-9, "detail": f"{name} N={N}: 2D term on a state varying along axis {axis} only vs the 1D term differ by {e:.3g}"}

    return replay


def _multipliers(ck):
    """exp arguments of real isotropic steppers: invariant under the axis swap of
    the wavenumber vector; on embedded modes equal to the 1D stepper's"""
    N = 6
    cases = [
        ("Burgers", 2, lambda D: (lambda L, dt, p: S.Burgers(D, L, N, dt, diffusivity=p[0], convection_scale=p[1], order=1))),
        ("KuramotoSivashinsky", 3, lambda D: (lambda L, dt, p: S.KuramotoSivashinsky(D, L, N, dt, gradient_norm_scale=p[0], second_order_scale=p[1], fourth_order_scale=p[2], order=1))),
        ("KortewegDeVries", 3, lambda D: (lambda L, dt, p: S.KortewegDeVries(D, L, N, dt, dispersivity=p[0], hyper_diffusivity=p[1], convection_scale=p[2], order=1))),
        ("Diffusion/scalar-like", 1, lambda D: (lambda L, dt, p: S.Diffusion(D, L, N, dt, diffusivity=p[0] * jnp.ones(D)))),
        ("FisherKPP", 2, lambda D: (lambda L, dt, p: S.reaction.FisherKPP(D, L, N, dt, diffusivity=p[0], reactivity=p[1], order=1))),
    ]
    for nm, npar, mk in cases:
        ins = [In("L", (), lo=0.5, hi=2.0), In("dt", (), lo=0.01, hi=0.05), In("p", (npar,), lo=0.1, hi=1.0)]

        def f(L, dt, p, mk=mk):
            s1, s2 = mk(1)(L, dt, p), mk(2)(L, dt, p)
            return s1._integrator._exp_term, s2._integrator._exp_term

        enc = Encoded(f, ins, tag="mu")
        calls = enc.interp.calls["exp"]
        a1 = next(c["arg"] for c in calls if c["arg"].ndim == 2)  # first exp of the 1D constructor: exp(dt * L)
        a2 = next(c["arg"] for c in calls if c["arg"].ndim == 3)
        L = ins[0].s
        for idx, m in orc.stored_modes(2, N):
            if orc.is_nyquist(m, N):
                continue
            here = sym.asc(a2[(0,) + idx])
            there = orc.half_lookup(a2[0], (m[1], m[0]), N)
            ck.add(f"multiplier/{nm}/swap/{idx[0]}_{idx[1]}", sym.equal_goal(here, there), [L > 0], family=f"linear multiplier invariant under axis swap/{nm}")
            if m[0] == 0:
                ck.add(f"multiplier/{nm}/embed/{idx[0]}_{idx[1]}", sym.equal_goal(here, sym.asc(a1[0, m[1]])), [L > 0], family=f"linear multiplier on embedded modes = 1D multiplier/{nm}")
