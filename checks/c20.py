"""C20 -- malformed states and unsupported configurations are rejected, not accepted.

E3: CrossHair symbolically executes the REAL guard code (re-compiled from the
current source with f-strings blanked; constructor guards truncated right
after the guard so that a path ends after the check it exercises) with
unbounded symbolic ints / bools / tuples: "Confirmed over all paths" is the
verdict; a counterexample is replayed on the real API.  Finite-alphabet guards
(mode strings, None references, order dispatch) are enumerated.  Static part:
every exported stepper class resolves __call__ to the one checked function and
a correctly shaped state comes back with the same shape (traced avals).
"""
from __future__ import annotations

import inspect
import itertools

import numpy as np

import exponax as ex
import jax
import jax.numpy as jnp

from vlib import guards

HEADER = '''
import os
from types import SimpleNamespace
from typing import Tuple
import exponax as ex
from vlib.guards import blank, Arr

def _raises(f, *a, **k):
    try:
        f(*a, **k)
        return False
    except (ValueError, NotImplementedError):
        return True
'''


def _shape_harness(name, fn_expr, D, length, channel_free=False):
    args = [f"s{i}" for i in range(length)]
    sig = ", ".join(f"{a}: int" for a in args) + ", C: int, N: int"
    ok = " and ".join([f"len(({', '.join(args)},)) == {D + 1}"] + ([] if channel_free else ["s0 == C"]) + [f"s{i} == N" for i in range(1, D + 1)]) if length == D + 1 else "False"
    return f'''
_{name} = blank({fn_expr})
def g_{name}({sig}) -> bool:
    """
    pre: C >= 1 and N >= 1 and {' and '.join(f'{a} >= 0' for a in args)}
    post: __return__ == True
    """
    self = SimpleNamespace(num_channels=C, num_spatial_dims={D}, num_points=N, step=lambda u: u)
    rejected = _raises(_{name}, self, Arr(({', '.join(args)},)))
    return rejected == (not ({ok}))

def r_{name}({', '.join(args)}, C, N):
    import jax.numpy as jnp
    self = SimpleNamespace(num_channels=C, num_spatial_dims={D}, num_points=N, step=lambda u: u)
    rejected = _raises({fn_expr}, self, jnp.zeros(({', '.join(args)},)))
    return rejected == (not ({ok}))
'''


def _dim_harness(name, cls_expr, want_D, positional):
    """constructor dimension guard, truncated after the guard"""
    return f'''
_{name} = blank({cls_expr}.__init__, truncate=True, keep_guards=1)
def g_{name}(D: int) -> bool:
    """
    pre: 1 <= D <= 3
    post: __return__ == True
    """
    rejected = _raises(_{name}, SimpleNamespace(), D, {positional})
    return rejected == (D != {want_D})
'''


def build(ck):
    S, G, NF = ex.stepper, ex.stepper.generic, ex.nonlin_fun
    ck.level = "model_checking"
    ck.encode_fn(ex.BaseStepper.__call__, ex.RepeatedStepper.__call__, ex.poisson.Poisson.__call__, ex.spectral.build_laplace_operator, ex.spectral.build_gradient_inner_product_operator,
                 ex.ic._base_ic.validate_normalization_options if hasattr(ex.ic, "_base_ic") else ex.ic.BaseRandomICGenerator, NF.VorticityConvection2d.__init__, NF.ProjectedConvection3d.__init__,
                 S.NavierStokesVorticity.__init__, S.KolmogorovFlowVorticity.__init__, S.NavierStokesVelocity.__init__, S.KolmogorovFlowVelocity.__init__, G.GeneralVorticityConvectionStepper.__init__,
                 ex.spectral.make_incompressible, NF.GeneralNonlinearFun.__init__)
    ck.bound("CrossHair: unbounded symbolic ints/bools, tuple lengths D, D+1, D+2 for D in {1,2,3}; constructor guards truncated after the guard (everything after it is outside the path); enumerated: mode strings, None references, orders -1..6")
    ck.assume("CrossHair's model of int/bool/tuple; f-strings in raise messages blanked; the array stand-in exposes only .shape/.ndim (all the guards read)")
    src = HEADER
    names = []
    # --- A: shape guards
    for D in (1, 2, 3):
        for length in (D, D + 1, D + 2):
            for nm, expr, cf in (("base", "ex.BaseStepper.__call__", False), ("repeated", "ex.RepeatedStepper.__call__", False), ("poisson", "ex.poisson.Poisson.__call__", True)):
                n = f"{nm}_d{D}_len{length}"
                src += _shape_harness(n, expr, D, length, channel_free=cf)
                names.append((n, f"shape guard {nm}", True))
    # --- B: dimension guards
    dims = [
        ("VorticityConvection2d", "ex.nonlin_fun.VorticityConvection2d", 2, "8, derivative_operator=None, dealiasing_fraction=0.5"),
        ("ProjectedConvection3d", "ex.nonlin_fun.ProjectedConvection3d", 3, "8, derivative_operator=None"),
        ("NavierStokesVorticity", "ex.stepper.NavierStokesVorticity", 2, "1.0, 8, 0.1"),
        ("KolmogorovFlowVorticity", "ex.stepper.KolmogorovFlowVorticity", 2, "1.0, 8, 0.1"),
        ("NavierStokesVelocity", "ex.stepper.NavierStokesVelocity", 3, "1.0, 8, 0.1"),
        ("KolmogorovFlowVelocity", "ex.stepper.KolmogorovFlowVelocity", 3, "1.0, 8, 0.1"),
        ("GeneralVorticityConvectionStepper", "ex.stepper.generic.GeneralVorticityConvectionStepper", 2, "1.0, 8, 0.1"),
    ]
    for nm, expr, want, pos in dims:
        src += _dim_harness("dim_" + nm, expr, want, pos)
        names.append(("dim_" + nm, "dimension guard", False))
    # --- C: parity / shape guards of the operator builders
    src += '''
_lap = blank(ex.spectral.build_laplace_operator, truncate=True)
def g_laplace_parity(order: int) -> bool:
    """
    pre: order >= 0
    post: __return__ == True
    """
    return _raises(_lap, Arr((2, 4)), order=order) == (order % 2 != 0)

_gip = blank(ex.spectral.build_gradient_inner_product_operator, truncate=True)
def g_gradinner_guards(order: int, D: int, v: int) -> bool:
    """
    pre: order >= 0 and D >= 1 and v >= 0
    post: __return__ == True
    """
    return _raises(_gip, Arr((D, 4)), Arr((v,)), order=order) == ((order % 2 != 1) or (v != D))

_vno = blank(ex.ic._base_ic.validate_normalization_options)
def g_normalization_options(zero_mean: bool, std_one: bool, max_one: bool) -> bool:
    """
    post: __return__ == True
    """
    return _raises(_vno, zero_mean=zero_mean, std_one=std_one, max_one=max_one) == (((not zero_mean) and std_one) or (std_one and max_one))

_mkinc = blank(ex.spectral.make_incompressible, truncate=True)
def g_make_incompressible_channels(C: int, a: int, b: int) -> bool:
    """
    pre: C >= 1 and a >= 1 and b >= 1
    post: __return__ == True
    """
    return _raises(_mkinc, Arr((C, a, b))) == (C != 2)

_gnl = blank(ex.nonlin_fun.GeneralNonlinearFun.__init__, truncate=True, keep_guards=1)
def g_general_nonlinear_scale_list(n: int) -> bool:
    """
    pre: 0 <= n <= 6
    post: __return__ == True
    """
    return _raises(_gnl, SimpleNamespace(), 1, 8, derivative_operator=None, dealiasing_fraction=0.5, scale_list=(0.0,) * n) == (n != 3)
'''
    src += '''
_sw = blank(ex.ic.SineWaves1d.__init__, truncate=True, keep_guards=3)
_OFFS = [0.0, 1.0, -1.0, 0.5, -0.25, 0]
def g_sinewaves_options(k: int, std_one: bool, max_one: bool) -> bool:
    """
    pre: 0 <= k <= 5
    post: __return__ == True
    """
    rejected = _raises(_sw, SimpleNamespace(), 1.0, (1.0,), (1,), (0.0,), offset=_OFFS[k], std_one=std_one, max_one=max_one)
    return rejected == ((k not in (0, 5) and std_one) or (std_one and max_one))

_disc = blank(ex.ic.Discontinuities.__init__, truncate=True, keep_guards=2)
def g_discontinuities_options(zero_mean: bool, std_one: bool, max_one: bool) -> bool:
    """
    post: __return__ == True
    """
    return _raises(_disc, SimpleNamespace(), (), zero_mean=zero_mean, std_one=std_one, max_one=max_one) == (((not zero_mean) and std_one) or (std_one and max_one))

_rdisc = blank(ex.ic.RandomDiscontinuities.__init__, truncate=True, keep_guards=2)
def g_random_discontinuities_options(zero_mean: bool, std_one: bool, max_one: bool) -> bool:
    """
    post: __return__ == True
    """
    return _raises(_rdisc, SimpleNamespace(), 1, zero_mean=zero_mean, std_one=std_one, max_one=max_one) == (((not zero_mean) and std_one) or (std_one and max_one))

_rsw = blank(ex.ic.RandomSineWaves1d.__init__, truncate=True, keep_guards=3)
_ORS = [(0.0, 0.0), (0.0, 1.0), (-1.0, 0.0), (-0.5, 0.5), (0.25, 0.25)]
def g_random_sinewaves_options(D: int, r: int, std_one: bool, max_one: bool) -> bool:
    """
    pre: 1 <= D <= 3 and 0 <= r <= 4
    post: __return__ == True
    """
    return _raises(_rsw, SimpleNamespace(), D, offset_range=_ORS[r], std_one=std_one, max_one=max_one) == (D != 1 or (r != 0 and std_one) or (std_one and max_one))

_SWT = [(), (1.0,), (1.0, 1.0)]
def g_sinewaves_lengths(na: int, nw: int, nph: int) -> bool:
    """
    pre: 0 <= na <= 2 and 0 <= nw <= 2 and 0 <= nph <= 2
    post: __return__ == True
    """
    rejected = _raises(_sw, SimpleNamespace(), 1.0, _SWT[na], _SWT[nw], _SWT[nph])
    return rejected == (na != nw or nw != nph)
'''
    names += [("sinewaves_options", "option validation", False), ("sinewaves_lengths", "option validation", False), ("discontinuities_options", "option validation", False),
              ("random_discontinuities_options", "option validation", False), ("random_sinewaves_options", "option validation", False)]
    names += [("laplace_parity", "operator guards", False), ("gradinner_guards", "operator guards", False), ("normalization_options", "option validation", False),
              ("make_incompressible_channels", "operator guards", False), ("general_nonlinear_scale_list", "option validation", False)]
    # reachability twin: a wrong postcondition must be refuted by CrossHair
    src += '''
def g_twin_base(s0: int, s1: int, C: int, N: int) -> bool:
    """
    pre: C >= 1 and N >= 1 and s0 >= 0 and s1 >= 0
    post: __return__ == True
    """
    self = SimpleNamespace(num_channels=C, num_spatial_dims=1, num_points=N, step=lambda u: u)
    return _raises(_base_d1_len2, self, Arr((s0, s1)))
'''
    timeout = 20 if ck.tier == "quick" else 60
    res, secs = guards.run(src, per_condition_timeout=timeout)
    ck.extra["crosshair_wall_s"] = round(secs, 1)
    ck.extra["crosshair_cmd"] = f"python -m crosshair check --report_all --per_condition_timeout {timeout} <generated harness>"
    ns = {}
    for n, fam, has_real in names:
        st, msg = res.get("g_" + n, ("unknown", "no verdict"))
        ck.add_direct(f"guard/{n}", st, family=f"CrossHair: {fam}", detail=msg[:300], replay=_guard_replay(src, n, msg, has_real), t=secs / max(1, len(names)))
        ck.obls[-1].text = "CrossHair harness g_" + n
    st, msg = res.get("g_twin_base", ("unknown", ""))
    ck.add_direct("guard/twin", st, family="CrossHair: reachability twin", detail=msg[:300], expect="sat", t=0.0)
    _enumerated(ck)
    _static(ck)


def _guard_replay(src, n, msg, has_real):
    def replay(model):
        import os

        call = guards.parse_call(msg)
        if not call or call[1] is None:
            return {"reproduced": False, "detail": "could not parse the counterexample: " + msg[:200]}
        ns = {}
        os.environ["GUARD_REAL"] = "1"
        exec(compile(src, "<guard_harness>", "exec"), ns)
        fn = ns.get(("r_" if has_real else "g_") + n)
        ok = fn(*call[1])
        return {"reproduced": not ok, "detail": f"guard {n} misbehaves for arguments {call[1]}: {msg[:160]}"}

    return replay


def _enumerated(ck):
    """finite-alphabet guards, enumerated concretely on the real API"""
    def raises(f, exc=(ValueError,)):
        try:
            f()
            return False
        except exc:
            return True

    u1, u2 = jnp.ones((1, 8)), jnp.ones((1, 8)) * 2
    fam = "enumerated guards (finite alphabets)"
    cases = []
    for mode in ("absolute", "normalized", "symmetric"):
        cases.append((f"spatial_norm/{mode}/no-ref", raises(lambda: ex.metrics.spatial_norm(u1, None, mode=mode)) == (mode != "absolute")))
        cases.append((f"fourier_norm/{mode}/no-ref", raises(lambda: ex.metrics.fourier_norm(u1, None, mode=mode)) == (mode == "normalized")))
        cases.append((f"spatial_norm/{mode}/with-ref", not raises(lambda: ex.metrics.spatial_norm(u1, u2, mode=mode))))
    for mode in ("norm_compensation", "reconstruction", "coef_extraction", "foo", "", "Reconstruction"):
        cases.append((f"build_scaling_array/{mode!r}", raises(lambda: ex.spectral.build_scaling_array(1, 8, mode=mode)) == (mode not in ("norm_compensation", "reconstruction", "coef_extraction"))))
    for order in range(-1, 7):
        cases.append((f"BaseStepper/order{order}", raises(lambda: ex.stepper.Burgers(1, 1.0, 8, 0.1, order=order), (NotImplementedError,)) == (order not in (0, 1, 2, 3, 4))))
    cases.append(("ifft/1d-without-num_points", raises(lambda: ex.ifft(jnp.ones((1, 5), complex)))))
    cases.append(("ifft/2d-infers-num_points", not raises(lambda: ex.ifft(jnp.ones((1, 8, 5), complex)))))
    for T in (1, 3):
        for sl in (1, T, T + 1):
            cases.append((f"stack_sub_trajectories/T{T}/len{sl}", raises(lambda: ex.stack_sub_trajectories(jnp.ones((T, 2)), sl)) == (sl > T)))
    for D in (1, 2, 3):
        cases.append((f"RandomSineWaves1d/D{D}", raises(lambda: ex.ic.RandomSineWaves1d(D)) == (D != 1)))
    cases.append(("SineWaves1d/offset+std_one", raises(lambda: ex.ic.SineWaves1d(1.0, (1.0,), (1,), (0.0,), offset=1.0, std_one=True))))
    cases.append(("SineWaves1d/negative-offset+std_one", raises(lambda: ex.ic.SineWaves1d(1.0, (1.0,), (1,), (0.0,), offset=-0.25, std_one=True))))
    cases.append(("SineWaves1d/std_one+max_one", raises(lambda: ex.ic.SineWaves1d(1.0, (1.0,), (1,), (0.0,), std_one=True, max_one=True))))
    cases.append(("SineWaves1d/length-mismatch", raises(lambda: ex.ic.SineWaves1d(1.0, (1.0, 2.0), (1,), (0.0,)))))
    cases.append(("SineWaves1d/valid", not raises(lambda: ex.ic.SineWaves1d(1.0, (1.0,), (1,), (0.0,)))))
    cases.append(("GrayScott-nonlin/wrong-channels", raises(lambda: ex.stepper.reaction.GrayScott(1, 1.0, 8, 0.1)._integrator._nonlinear_fun(jnp.ones((3, 5), complex)))))
    for C in (1, 2, 3, 4):
        cases.append((f"GrayScott-nonlin/channels{C}", raises(lambda: ex.stepper.reaction.GrayScott(1, 1.0, 8, 0.1)._integrator._nonlinear_fun(jnp.ones((C, 5), complex))) == (C != 2)))
    for n in range(0, 6):
        cases.append((f"GeneralNonlinearStepper/{n}-nonlinear-coefficients", raises(lambda: ex.stepper.generic.GeneralNonlinearStepper(1, 1.0, 8, 0.1, nonlinear_coefficients=(0.0,) * n)) == (n != 3)))
        cases.append((f"NormalizedNonlinearStepper/{n}-nonlinear-coefficients", raises(lambda: ex.stepper.generic.NormalizedNonlinearStepper(1, 8, normalized_nonlinear_coefficients=(0.0,) * n)) == (n != 3)))
    cases.append(("Convection/multi-channel-mismatch", raises(lambda: ex.stepper.Burgers(2, 1.0, 8, 0.1)._integrator._nonlinear_fun(jnp.ones((3, 8, 5), complex)))))
    for nm, ok in cases:
        ck.add(f"enumerated/{nm}", bool(ok), [], family=fam, replay=lambda m, nm=nm: {"reproduced": True, "detail": f"guard behaviour differs from the documentation for {nm}"})


def _exported_steppers():
    out = []
    for mod in (ex.stepper, ex.stepper.generic, ex.stepper.reaction):
        for nm in getattr(mod, "__all__", dir(mod)):
            obj = getattr(mod, nm, None)
            if inspect.isclass(obj) and issubclass(obj, ex.BaseStepper) and obj is not ex.BaseStepper:
                out.append((f"{mod.__name__.split('exponax.')[-1]}.{nm}", obj))
    return out


def _instantiate(cls):
    sig = inspect.signature(cls.__init__)
    params = list(sig.parameters)[1:]
    for D in (1, 2, 3):
        try:
            if "domain_extent" in params:
                return D, cls(D, 1.0, 8, 0.1)
            return D, cls(D, 8)
        except (ValueError, TypeError):
            continue
    return None, None


def _static(ck):
    fam = "static: every exported stepper uses the checked __call__ and preserves shapes"
    classes = _exported_steppers()
    ck.extra["stepper_classes_enumerated"] = [n for n, _ in classes]
    for nm, cls in classes:
        ck.add(f"static/{nm}/__call__", cls.__call__ is ex.BaseStepper.__call__, [], family=fam, replay=lambda m, nm=nm: {"reproduced": True, "detail": f"{nm} overrides __call__: its shape check is not the verified one"})
        D, st = _instantiate(cls)
        if st is None:
            ck.add(f"static/{nm}/instantiable", False, [], family=fam, replay=lambda m, nm=nm: {"reproduced": True, "detail": f"{nm} could not be instantiated with default arguments"})
            continue
        shape = (st.num_channels,) + (8,) * D
        try:
            out = jax.eval_shape(st, jax.ShapeDtypeStruct(shape, jnp.float32))
            ok = tuple(out.shape) == shape
        except Exception as ex_:  # noqa
            ok = False
        ck.add(f"static/{nm}/same-shape-out", bool(ok), [], family=fam, replay=lambda m, nm=nm: {"reproduced": True, "detail": f"{nm}: a correctly shaped state is rejected or changes shape"})
        wrong = [(st.num_channels + 1,) + (8,) * D, (st.num_channels,) + (8,) * (D - 1) + (9,), (2, st.num_channels) + (8,) * D]
        for w in wrong:
            try:
                st(jnp.zeros(w))
                rej = False
            except ValueError:
                rej = True
            except Exception:
                rej = False
            ck.add(f"static/{nm}/rejects/{'x'.join(map(str, w))}", rej, [], family="every exported stepper rejects wrong channel count / unequal axes / batch axis (concrete)", replay=lambda m, nm=nm, w=w: {"reproduced": True, "detail": f"{nm} accepts a state of shape {w}"})
