"""C05 -- spectral differential operators are exact on band-limited fields.

The field is a trigonometric polynomial below Nyquist with symbolic
coefficients c_m = A_m + i B_m, sampled by the harness with exact twiddles; L is
symbolic.  ex.derivative (orders 1..6, C in {1,2}), build_laplace_operator,
build_gradient_inner_product_operator and ex.poisson.Poisson (orders 2, 4) are
the real functions; the oracle differentiates term by term.
"""
from __future__ import annotations

import itertools
from fractions import Fraction

import numpy as np
import z3

import exponax as ex
import jax.numpy as jnp

from vlib import oracle as orc
from vlib import sym
from vlib.eqinst import Encoded, In
from vlib.sym import Cx, ONE, ZERO


def half_modes(D, N):
    """one representative of every +-m pair below Nyquist, DC excluded"""
    out = []
    for m in orc.all_modes(D, N, below_nyquist=True):
        if not any(m):
            continue
        neg = tuple(-x for x in m)
        if m > neg:
            out.append(m)
    return out


def trig_field(D, N, C, prefix="c"):
    """(field array (C,N..), coeffs: list per channel of dict m -> Cx two-sided)"""
    fld = np.empty((C,) + (N,) * D, dtype=object)
    coeffs = []
    H = half_modes(D, N)
    for c in range(C):
        two = {(0,) * D: Cx(z3.Real(f"{prefix}{c}_dc"), ZERO)}
        for m in H:
            nm = f"{prefix}{c}_" + "_".join(str(x).replace("-", "n") for x in m)
            a, b = z3.Real(nm + "_A"), z3.Real(nm + "_B")
            half = orc.fl(Fraction(1, 2))
            two[m] = Cx(sym.rmul(half, a), sym.rmul(half, b))
            two[tuple(-x for x in m)] = Cx(sym.rmul(half, a), sym.rneg(sym.rmul(half, b)))
        coeffs.append(two)
        for x in np.ndindex((N,) * D):
            fld[(c,) + x] = orc.synth(two, x, N).re
    return fld, coeffs


def sample(two, D, N):
    out = np.empty((N,) * D, dtype=object)
    for x in np.ndindex((N,) * D):
        out[x] = orc.synth(two, x, N).re
    return out


def build(ck):
    S = ex.spectral
    ck.encode_fn(ex.derivative, S.build_laplace_operator, S.build_gradient_inner_product_operator, S.build_derivative_operator, ex.poisson.Poisson, ex.fft, ex.ifft)
    quick = [(1, 5), (1, 6), (2, 4), (2, 5), (3, 3)]
    thorough = [(1, n) for n in (5, 6, 7, 8)] + [(2, n) for n in (4, 5, 6)] + [(3, 3), (3, 4)]
    grids = thorough if ck.tier == "thorough" else quick
    ck.bound("grids (D,N): " + ", ".join(map(str, grids)) + "; derivative orders 1..6; C in {1,2}; Laplace orders 0,2,4,6; gradient-inner-product orders 1,3,5; Poisson orders 2,4; L symbolic; all Nyquist-free trigonometric polynomials (symbolic coefficients)")
    ck.assume("real arithmetic; fields without Nyquist content (as the property states)")
    o = getattr(ck, "only", None)
    for D, N in grids:
        if o and f"D{D}N{N}" not in o:
            continue
        _derivative(ck, D, N)
        _operators(ck, D, N)
        _poisson(ck, D, N)


def _derivative(ck, D, N):
    orders = (1, 2, 3, 4, 5, 6) if (D == 1 or ck.tier == "thorough") else ((1, 2, 3, 4) if D == 2 else (1, 2))
    for C in (1, 2):
        if C == 2 and (D == 3 or N == 5) and ck.tier == "quick":
            continue
        fld, coeffs = trig_field(D, N, C)
        base = None
        for order in orders:
            tag = f"derivative/D{D}N{N}/C{C}/order{order}"
            ins = [In("L", (), lo=0.5, hi=3.0), In("u", (C,) + (N,) * D, sym_arr=fld)]
            enc = Encoded(lambda L, u, order=order: ex.derivative(u, L, order=order), ins, tag="d")
            if order == 1:
                enc.validate(ck, what=tag, max_components=6)
            L = ins[0].s
            W = orc.two_pi_over(L)
            shape = (C, D) + (N,) * D if C > 1 else (D,) + (N,) * D
            orac = np.empty(shape, dtype=object)
            for c in range(C):
                for d in range(D):
                    der = {m: sym.cmul(v, orc.ik_pow(W, m[d], order)) for m, v in coeffs[c].items()}
                    smp = sample(der, D, N)
                    if C > 1:
                        orac[c, d] = smp
                    else:
                        orac[d] = smp
            enc.compare(ck, tag, 0, orac, [L > 0], family=f"derivative/order{order}")
        ck.add(f"derivative/D{D}N{N}/C{C}/twin", sym.equal_goal(enc.outs[0][(0,) * len(shape)], sym.rmul(orc.fl(2), orac[(0,) * len(shape)])), [L > 0], family="derivative/twin", expect="sat")


def _operators(ck, D, N):
    S = ex.spectral
    ins = [In("L", (), lo=0.5, hi=3.0), In("c", (D,))]
    L, c = ins[0].s, ins[1].sym
    W = orc.two_pi_over(L)
    for order in (0, 2, 4, 6):
        tag = f"laplace/D{D}N{N}/order{order}"
        enc = Encoded(lambda L, c, order=order: S.build_laplace_operator(S.build_derivative_operator(D, L, N), order=order), ins, tag="l")
        orac = np.empty((1,) + orc.spectrum_shape(D, N), dtype=object)
        for idx, m in orc.stored_modes(D, N):
            orac[(0,) + idx] = orc.csum(orc.ik_pow(W, m[d], order) for d in range(D)) if order else Cx(ONE, ZERO)
        enc.compare(ck, tag, 0, orac, [L > 0], family=f"laplace operator/order{order}")
    for order in (1, 3, 5):
        tag = f"gradinner/D{D}N{N}/order{order}"
        enc = Encoded(lambda L, c, order=order: S.build_gradient_inner_product_operator(S.build_derivative_operator(D, L, N), c, order=order), ins, tag="g")
        orac = np.empty((1,) + orc.spectrum_shape(D, N), dtype=object)
        for idx, m in orc.stored_modes(D, N):
            orac[(0,) + idx] = orc.csum(orc.cscale(orc.ik_pow(W, m[d], order), c[d]) for d in range(D))
        enc.compare(ck, tag, 0, orac, [L > 0], family=f"gradient inner product/order{order}")


def _poisson(ck, D, N):
    """(1) spectral solve per stored mode with L symbolic; (2) the physical call
    equals the harness' inverse DFT of -Q * DFT(f) for a free (symmetric, real)
    multiplier array Q, f a Nyquist-free trigonometric polynomial."""
    import equinox as eqx
    from vlib.jx2smt import hermitian_spectrum

    spec = (1,) + orc.spectrum_shape(D, N)
    for order in (2, 4):
        tag = f"poisson/D{D}N{N}/order{order}"
        ins = [In("L", (), lo=0.5, hi=3.0), In("fh", spec, "complex")]
        enc = Encoded(lambda L, fh, order=order: ex.poisson.Poisson(D, L, N, order=order).step_fourier(fh), ins, tag="ps")
        enc.validate(ck, what=tag, max_components=6)
        L, fh = ins[0].s, ins[1].sym
        W = orc.two_pi_over(L)
        orac = np.empty(spec, dtype=object)
        for idx, m in orc.stored_modes(D, N):
            if not any(m):
                orac[(0,) + idx] = Cx(ZERO, ZERO)
                continue
            op = orc.csum(orc.ik_pow(W, m[d], order) for d in range(D))
            v = sym.asc(fh[(0,) + idx])
            orac[(0,) + idx] = Cx(sym.rneg(sym.rdiv(v.re, op.re)), sym.rneg(sym.rdiv(v.im, op.re)))
            # defining equation: (sum_d (i k_d)^order) * u_hat = -f_hat
            lhs = sym.cmul(op, sym.asc(enc.outs[0][(0,) + idx]))
            ck.add(f"{tag}/defining-equation/{'_'.join(map(str, idx))}", sym.equal_goal(lhs, sym.cneg(v)), [L > 0], family=f"poisson defining equation/order{order}",
                   replay=enc.replay_eq(0, (0,) + idx, orac[(0,) + idx]))
        enc.compare(ck, tag, 0, orac, [L > 0], family=f"poisson spectral/order{order}")
    ck.add(f"poisson/D{D}N{N}/twin", sym.equal_goal(enc.outs[0][(0,) * D + (1,)], sym.asc(fh[(0,) * D + (1,)])), [L > 0], family="poisson/twin", expect="sat")
    # physical-space call with a free multiplier
    fld, coeffs = trig_field(D, N, 1, prefix="f")
    Q = hermitian_spectrum("Q", N, D, 1)
    Qr = np.vectorize(lambda c: Cx(c.re, ZERO), otypes=[object])(Q)  # real, symmetric multiplier
    ins = [In("Q", spec, "complex", sym_arr=Qr), In("f", (1,) + (N,) * D, sym_arr=fld)]

    # the solver object stores ONE spectral multiplier (a private leaf, whatever its name and sign convention): it is
    # located as the only array leaf of spectral shape, replaced by the free multiplier Q, and its sign convention
    # (step_fourier(f_hat) = sgn * leaf * f_hat) is read off concretely
    import jax

    P0 = ex.poisson.Poisson(D, 1.0, N)
    leaves = [(pth, lf) for pth, lf in jax.tree_util.tree_flatten_with_path(P0)[0] if hasattr(lf, "shape") and tuple(lf.shape) == spec]
    if len(leaves) != 1:
        ck.add_direct(f"poisson-physical/D{D}N{N}/encoding", "unknown", family="poisson physical call", detail=f"expected one spectral multiplier leaf in Poisson, found {len(leaves)}: the free-multiplier harness does not apply to this tree")
        return
    leaf0 = np.asarray(leaves[0][1])
    probe = jnp.ones(spec, dtype=jnp.complex128)
    j0 = next(i for i in np.ndindex(spec) if abs(leaf0[i]) > 0)
    sgn = complex(np.asarray(P0.step_fourier(probe))[j0] / leaf0[j0]).real
    if abs(abs(sgn) - 1.0) > 1e-12:
        ck.add_direct(f"poisson-physical/D{D}N{N}/encoding", "unknown", family="poisson physical call", detail=f"step_fourier is not +-(stored multiplier) * f_hat (ratio {sgn}): the free-multiplier harness does not apply to this tree")
        return
    sgn = int(round(sgn))
    is_leaf = lambda x: x is leaves[0][1]

    def g(Q, f):
        P = ex.poisson.Poisson(D, 1.0, N)
        flat, tdef = jax.tree_util.tree_flatten(P)
        k = next(i for i, lf in enumerate(jax.tree_util.tree_leaves(P0)) if lf is leaves[0][1])
        flat[k] = Q
        return jax.tree_util.tree_unflatten(tdef, flat)(f)

    enc = Encoded(g, ins, tag="pp")
    enc.validate(ck, what=f"poisson-physical/D{D}N{N}", max_components=6)
    sol = {m: sym.cscale(sym.cmul(orc.half_lookup(Qr[0], m, N), v), orc.fl(sgn)) for m, v in coeffs[0].items()}
    enc.compare(ck, f"poisson-physical/D{D}N{N}", 0, sample(sol, D, N)[None], [], family="poisson physical call")
