"""C12 -- forcing terms inject exactly the documented field.

(1) injected field: ifft(N(0)) of the real Kolmogorov nonlinear functions (and
    of the nonlinear function the stepper classes build) equals, on the grid,
    -k (2 pi/L) gamma cos(2 pi k j1/N)  (2D vorticity) resp.
    (gamma sin(2 pi k j1/N), 0, 0)     (3D velocity); gamma, L symbolic.
(2) shear-flow closure: on the forced-mode subspace the convective part
    vanishes (N(s e) = N(0) for every complex amplitude s), so every stage of
    every order sees the constant forcing and one step of the real stepper
    equals E*u + (sum of final-stage weights)*f_hat (coefficient arrays free);
    with C02's identity (weights sum = dt*phi_1) this is the laminar solution.
(3) ForcedStepper(step/step_fourier/__call__) = inner step of u + dt*f, inner
    stepper opaque.
"""
from __future__ import annotations

from fractions import Fraction

import numpy as np
import z3

import equinox as eqx
import exponax as ex
import jax.numpy as jnp

from vlib import oracle as orc
from vlib import sym
from vlib.eqinst import Encoded, In
from vlib.jx2smt import uf
from vlib.sym import Cx, ONE, ZERO

NF = ex.nonlin_fun


def _do(L, D, N):
    return ex.spectral.build_derivative_operator(D, L, N)


def doc_force_2d(N, k, L, g):
    W = orc.two_pi_over(L)
    out = np.empty((1, N, N), dtype=object)
    for j in np.ndindex((N, N)):
        c, _ = orc.twiddle.cs((k * j[1]) % N, N)
        out[(0,) + j] = sym.rneg(sym.rmul(sym.rmul(sym.rmul(orc.fl(k), W), g), c))
    return out


def doc_force_3d(N, k, g):
    out = np.empty((3, N, N, N), dtype=object)
    for j in np.ndindex((N, N, N)):
        _, s = orc.twiddle.cs((k * j[1]) % N, N)
        out[(0,) + j] = sym.rmul(g, s)
        out[(1,) + j] = ZERO
        out[(2,) + j] = ZERO
    return out


def build(ck):
    ck.encode_fn(NF.VorticityConvection2dKolmogorov, NF.ProjectedConvection3dKolmogorov, ex.stepper.KolmogorovFlowVorticity, ex.stepper.KolmogorovFlowVelocity,
                 ex.stepper.generic.GeneralVorticityConvectionStepper, ex.ForcedStepper, ex.spectral.build_scaling_array, ex.spectral.build_wavenumbers)
    ck.bound("2D N in {6,8} (thorough: +5,7,12), injection modes k in {1,2,3} (k < N/2); 3D N=6 (thorough: +4,5) k in {1,2}; gamma, L, viscosity, drag, dt symbolic; orders 1-4")
    ck.assume("real arithmetic; the laminar-solution clause uses C02's weights-sum identity (exact phi hypothesis) to turn 'sum of final-stage weights' into dt*phi_1")
    thorough = ck.tier == "thorough"
    only = getattr(ck, "only", None)
    want = lambda t: (not only) or only in t
    for N in ((6, 8) if not thorough else (5, 6, 7, 8, 12)):
        for k in (1, 2, 3):
            if 2 * k >= N:
                continue
            if want(f"inject2d/N{N}/k{k}"):
                _inject2d(ck, N, k)
    for N in ((6,) if not thorough else (4, 5, 6)):
        for k in (1, 2):
            if 2 * k >= N:
                continue
            if want(f"inject3d/N{N}/k{k}"):
                _inject3d(ck, N, k)
    if want("hazard"):
        _float_hazard_sizes(ck)
    if want("closure"):
        _closure2d(ck, 6, 1)
        _closure3d(ck, 6, 1)
        if thorough:
            _closure2d(ck, 10, 2)  # N = 10: the 2/3 rule retains |m| <= 2, so the forced mode k = 2 survives the pre-dealiasing (at N = 8 it does not and the obligation would be vacuous)
    if want("step"):
        for order in (1, 2, 3, 4):
            _step_from_forced_subspace(ck, order)
    if want("forced"):
        _forced_stepper(ck)


def _inject2d(ck, N, k):
    for nm, mk in [
        # the convection scale b is symbolic too: the documented forcing does not depend on it
        ("nonlin_fun", lambda L, g, b: NF.VorticityConvection2dKolmogorov(2, N, convection_scale=b, injection_mode=k, injection_scale=g, derivative_operator=_do(L, 2, N), dealiasing_fraction=2 / 3)),
        ("KolmogorovFlowVorticity", lambda L, g, b: ex.stepper.KolmogorovFlowVorticity(2, L, N, 0.1, convection_scale=b, injection_mode=k, injection_scale=g)._integrator._nonlinear_fun),
        ("GeneralVorticityConvectionStepper", lambda L, g, b: ex.stepper.generic.GeneralVorticityConvectionStepper(2, L, N, 0.1, vorticity_convection_scale=b, injection_mode=k, injection_scale=1.5)._integrator._nonlinear_fun),
    ]:
        tag = f"inject2d/N{N}/k{k}/{nm}"
        ins = [In("L", (), lo=0.5, hi=3.0), In("g", (), lo=0.5, hi=2.0), In("b", (), lo=-2.0, hi=2.0)]
        enc = Encoded(lambda L, g, b, mk=mk: ex.ifft(mk(L, g, b)(jnp.zeros((1, N, N // 2 + 1), jnp.complex128)), num_spatial_dims=2, num_points=N), ins, tag="i2")
        enc.validate(ck, what=tag, max_components=6)
        L, g = ins[0].s, ins[1].s
        gam = g if nm != "GeneralVorticityConvectionStepper" else orc.fl(Fraction(3, 2))
        enc.compare(ck, tag, 0, doc_force_2d(N, k, L, gam), [L > 0], family=f"injected field 2D/{nm}")
    ck.add(f"inject2d/N{N}/k{k}/twin", sym.equal_goal(enc.outs[0][0, 0, 0], ZERO), [L > 0], family="injected field/twin", expect="sat")


def _inject3d(ck, N, k):
    for nm, mk in [
        ("nonlin_fun", lambda L, g: NF.ProjectedConvection3dKolmogorov(3, N, injection_mode=k, injection_scale=g, derivative_operator=_do(L, 3, N), dealiasing_fraction=2 / 3)),
        ("KolmogorovFlowVelocity", lambda L, g: ex.stepper.KolmogorovFlowVelocity(3, L, N, 0.1, injection_mode=k, injection_scale=g)._integrator._nonlinear_fun),
    ]:
        tag = f"inject3d/N{N}/k{k}/{nm}"
        ins = [In("L", (), lo=0.5, hi=3.0), In("g", (), lo=0.5, hi=2.0)]
        enc = Encoded(lambda L, g, mk=mk: ex.ifft(mk(L, g)(jnp.zeros((3, N, N, N // 2 + 1), jnp.complex128)), num_spatial_dims=3, num_points=N), ins, tag="i3")
        enc.validate(ck, what=tag, max_components=6)
        L, g = ins[0].s, ins[1].s
        enc.compare(ck, tag, 0, doc_force_3d(N, k, g), [L > 0], family=f"injected field 3D/{nm}")


def _float_hazard_sizes(ck):
    """concrete enumeration (not a solver verdict): grid sizes at which N * fl(1/N) != 1 in float64 (49, 98, 103, 107, ...),
    where a wavenumber table built as fftfreq(N, 1/N) is not integer-valued: the forced mode must still be found.
    The symbolic obligations use small N only and cannot see such sizes."""
    import math

    haz = [n for n in range(8, 128) if float(n) * (1.0 / n) != 1.0][:3] + [64]
    fam = "forcing at float-hazard grid sizes (concrete enumeration)"
    L, g, k = 3.0, 0.7, 2
    for N in haz:
        # 2D vorticity forcing: -k (2 pi / L) gamma cos(2 pi k y / L) in the documented sign convention of doc_force_2d at rest
        nf2 = NF.VorticityConvection2dKolmogorov(2, N, injection_mode=k, injection_scale=g, derivative_operator=_do(L, 2, N), dealiasing_fraction=2 / 3)
        h2 = np.asarray(nf2(jnp.zeros((1, N, N // 2 + 1), jnp.complex128)))
        amp2 = float(2 * np.abs(h2[0, 0, k]) / N**2) if np.count_nonzero(np.abs(h2) > 1e-9 * N**2) == 1 else float("nan")
        want2 = k * (2 * math.pi / L) * g
        ck.add(f"hazard/2d/N{N}", bool(abs(amp2 - want2) <= 1e-9 * want2), [], family=fam,
               replay=lambda m, N=N, amp2=amp2, want2=want2: {"reproduced": True, "detail": f"2D Kolmogorov forcing at rest, N={N}, L={L}, k={k}, gamma={g}: amplitude {amp2!r}, documented {want2!r}"})
        if N <= 64:
            nf3 = NF.ProjectedConvection3dKolmogorov(3, N, injection_mode=k, injection_scale=g, derivative_operator=_do(L, 3, N), dealiasing_fraction=2 / 3)
            h3 = np.asarray(nf3(jnp.zeros((3, N, N, N // 2 + 1), jnp.complex128)))
            amp3 = float(2 * np.abs(h3[0, 0, k, 0]) / N**3) if np.count_nonzero(np.abs(h3[0]) > 1e-9 * N**3) == 2 else float("nan")  # modes (0, +-k, 0)
            rest = float(max(np.max(np.abs(h3[1])), np.max(np.abs(h3[2]))) / N**3)
            ck.add(f"hazard/3d/N{N}", bool(abs(amp3 - g) <= 1e-9 * g and rest <= 1e-12), [], family=fam,
                   replay=lambda m, N=N, amp3=amp3, rest=rest: {"reproduced": True, "detail": f"3D Kolmogorov forcing at rest, N={N}, k={k}, gamma={g}: amplitude of the forced channel {amp3!r} (documented {g}), other channels {rest!r}"})


def _forced_state_2d(N, k, s):
    """spectrum with only the forced mode (0, +-k) populated, amplitude s (complex); real field"""
    uh = np.empty((1, N, N // 2 + 1), dtype=object)
    for i in np.ndindex(uh.shape):
        uh[i] = Cx(ZERO, ZERO)
    uh[0, 0, k] = s
    return uh


def _closure2d(ck, N, k):
    s = Cx(z3.Real("s_re"), z3.Real("s_im"))
    ins = [In("L", (), lo=0.5, hi=3.0), In("g", (), lo=0.5, hi=2.0), In("b", (), lo=0.5, hi=2.0), In("uh", (1, N, N // 2 + 1), "complex", sym_arr=_forced_state_2d(N, k, s))]

    def f(L, g, b, uh):
        nf = NF.VorticityConvection2dKolmogorov(2, N, convection_scale=b, injection_mode=k, injection_scale=g, derivative_operator=_do(L, 2, N), dealiasing_fraction=2 / 3)
        return nf(uh), nf(jnp.zeros_like(uh))

    enc = Encoded(f, ins, tag="c2")
    enc.compare(ck, f"closure2d/N{N}/k{k}", 0, enc.outs[1], [ins[0].s > 0], family="shear-flow closure 2D: N(s e_k) = N(0)")
    # twin: a state with two different modes does convect
    uh2 = _forced_state_2d(N, k, s)
    uh2[0, 1, 1] = Cx(z3.Real("t_re"), z3.Real("t_im"))  # |m|^2 = 2: psi is no longer proportional to omega
    enc2 = enc.clone_with(ins[:3] + [In("uh", (1, N, N // 2 + 1), "complex", sym_arr=uh2)], tag="c2t")
    ck.add(f"closure2d/N{N}/k{k}/twin", z3.And(*[g for g in (sym.equal_goal(enc2.outs[0][i], enc2.outs[1][i]) for i in np.ndindex(enc2.outs[0].shape)) if not isinstance(g, bool)]),
           [ins[0].s > 0], family="closure/twin", expect="sat")


def _closure3d(ck, N, k):
    # u = (s(y), 0, 0): only channel 0, modes (0, +-k, 0)
    a, b = z3.Real("s_re"), z3.Real("s_im")
    uh = np.empty((3, N, N, N // 2 + 1), dtype=object)
    for i in np.ndindex(uh.shape):
        uh[i] = Cx(ZERO, ZERO)
    uh[0, 0, k, 0] = Cx(a, b)
    uh[0, 0, N - k, 0] = Cx(a, sym.rneg(b))
    ins = [In("L", (), lo=0.5, hi=3.0), In("g", (), lo=0.5, hi=2.0), In("uh", uh.shape, "complex", sym_arr=uh)]

    def f(L, g, uh):
        nf = NF.ProjectedConvection3dKolmogorov(3, N, injection_mode=k, injection_scale=g, derivative_operator=_do(L, 3, N), dealiasing_fraction=2 / 3)
        return nf(uh), nf(jnp.zeros_like(uh))

    enc = Encoded(f, ins, tag="c3")
    enc.compare(ck, f"closure3d/N{N}/k{k}", 0, enc.outs[1], [ins[0].s > 0], family="shear-flow closure 3D: N(s e_k) = N(0)")


def _step_from_forced_subspace(ck, order):
    """real KolmogorovFlowVorticity of the given order, coefficient arrays free:
    one step from a state in the forced-mode subspace equals E*u + (sum of the
    final-stage weights)*f_hat, component-wise."""
    N, k = 6, 1
    from checks.c02 import COEFS, HAS_HALF

    names = ["_exp_term"] + (["_half_exp_term"] if HAS_HALF[order] else []) + COEFS[order]
    spec = (1, N, N // 2 + 1)
    s = Cx(z3.Real("s_re"), z3.Real("s_im"))
    ins = [In("L", (), lo=0.5, hi=3.0), In("g", (), lo=0.5, hi=2.0)] + [In(n.strip("_"), spec, "complex") for n in names] + [In("uh", spec, "complex", sym_arr=_forced_state_2d(N, k, s))]

    def f(L, g, *rest):
        leaves, uh = rest[:-1], rest[-1]
        st = ex.stepper.KolmogorovFlowVorticity(2, L, N, 0.1, injection_mode=k, injection_scale=g, order=order)
        for n, v in zip(names, leaves):
            st = eqx.tree_at(lambda t, n=n: getattr(t._integrator, n), st, v)
        return st.step_fourier(uh), st._integrator._nonlinear_fun(jnp.zeros_like(uh))

    enc = Encoded(f, ins, tag=f"sf{order}")
    P = {n: i.sym for n, i in zip(names, ins[2:-1])}
    uh = ins[-1].sym
    fh = enc.outs[1]
    mul = lambda a, b: sym.cmul(sym.asc(a), sym.asc(b))
    orac = np.empty(spec, dtype=object)
    for i in np.ndindex(spec):
        if order in (1, 2):
            w = P["_coef_1"][i]
        elif order == 3:
            w = sym.cadd(sym.cadd(sym.asc(P["_coef_3"][i]), sym.asc(P["_coef_4"][i])), sym.asc(P["_coef_5"][i]))
        else:
            w = sym.cadd(sym.cadd(sym.asc(P["_coef_4"][i]), sym.cscale(sym.asc(P["_coef_5"][i]), orc.fl(4))), sym.asc(P["_coef_6"][i]))
        orac[i] = sym.cadd(mul(P["_exp_term"][i], uh[i]), mul(w, fh[i]))
    enc.compare(ck, f"step-forced-subspace/order{order}", 0, orac, [ins[0].s > 0], family=f"one step on the forced-mode subspace/order{order}", timeout=120)


class _Opaque(eqx.Module):
    dt: float

    def step(self, u):
        return uf("S", u)

    def step_fourier(self, u_hat):
        return uf("Sf", u_hat)

    def __call__(self, u):
        return self.step(u)


def _forced_stepper(ck):
    N = 4
    ins = [In("dt", (), lo=0.1, hi=1.0), In("u", (2, N)), In("f", (2, N))]
    for meth in ("step", "__call__"):
        enc = Encoded(lambda dt, u, f, meth=meth: getattr(ex.ForcedStepper(_Opaque(dt)), meth)(u, f), ins, tag="fs")
        (name, (arg,), (out,)) = enc.interp.uf_calls[0]
        dt, u, f = ins[0].s, ins[1].sym, ins[2].sym
        for i in np.ndindex(u.shape):
            ck.add(f"forced/{meth}/arg/{'_'.join(map(str, i))}", sym.equal_goal(arg[i], sym.radd(u[i], sym.rmul(dt, f[i]))), [], family="ForcedStepper: inner step receives u + dt f",
                   replay=_forced_replay())
            ck.add(f"forced/{meth}/out/{'_'.join(map(str, i))}", sym.equal_goal(enc.outs[0][i], out[i]), [], family="ForcedStepper: returns the inner step", replay=_forced_replay())
        assert len(enc.interp.uf_calls) == 1
    insf = [In("dt", (), lo=0.1, hi=1.0), In("uh", (2, N // 2 + 1), "complex"), In("fh", (2, N // 2 + 1), "complex")]
    enc = Encoded(lambda dt, u, f: ex.ForcedStepper(_Opaque(dt)).step_fourier(u, f), insf, tag="fsf")
    (name, (arg,), (out,)) = enc.interp.uf_calls[0]
    dt, u, f = insf[0].s, insf[1].sym, insf[2].sym
    for i in np.ndindex(u.shape):
        ck.add(f"forced/step_fourier/arg/{'_'.join(map(str, i))}", sym.equal_goal(arg[i], sym.cadd(sym.asc(u[i]), sym.cscale(sym.asc(f[i]), dt))), [], family="ForcedStepper: inner step receives u + dt f",
               replay=_forced_replay())
        ck.add(f"forced/step_fourier/out/{'_'.join(map(str, i))}", sym.equal_goal(enc.outs[0][i], out[i]), [], family="ForcedStepper: returns the inner step", replay=_forced_replay())
    # zero forcing equals the unforced stepper (argument is u itself)
    enc0 = Encoded(lambda dt, u: ex.ForcedStepper(_Opaque(dt))(u, jnp.zeros_like(u)), ins[:2], tag="fs0")
    (name, (arg,), (out,)) = enc0.interp.uf_calls[0]
    for i in np.ndindex(ins[1].sym.shape):
        ck.add(f"forced/zero-forcing/{'_'.join(map(str, i))}", sym.equal_goal(arg[i], ins[1].sym[i]), [], family="ForcedStepper: zero forcing", replay=_forced_replay())


def _forced_replay():
    def replay(model):
        rng = np.random.default_rng(0)
        st = ex.stepper.Burgers(1, 1.0, 16, 0.05)
        u = jnp.asarray(rng.normal(size=(1, 16)))
        f = jnp.asarray(rng.normal(size=(1, 16)))
        got = ex.ForcedStepper(st)(u, f)
        exp = st(u + st.dt * f)
        err = float(jnp.max(jnp.abs(got - exp)))
        got0 = ex.ForcedStepper(st)(u, jnp.zeros_like(u))
        err0 = float(jnp.max(jnp.abs(got0 - st(u))))
        return {"reproduced": max(err, err0) > 1e-9, "detail": f"ForcedStepper(Burgers)(u,f) vs stepper(u+dt f): {err:.3g}; zero forcing vs stepper(u): {err0:.3g}"}

    return replay
