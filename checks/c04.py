"""C04 -- grid, FFT and Fourier-coefficient conventions are mutually consistent.

(a) ifft(fft(u)) = u for symbolic real u.
(b) make_grid: entry j along axis d is j*L/N (-L/2 if centred; N+1 points if
    full), L symbolic; both indexings.
(c) mode placement: for every wavenumber vector m of the grid the field
    A cos(theta_m) - B sin(theta_m)  (A = a cos(phi), B = a sin(phi) symbolic)
    goes through the real get_fourier_coefficients (three scaling modes):
    the result equals the documented spectrum / documented scaling at the
    stored index the documented layout (and the real wavenumber array) names,
    and is zero elsewhere.
(d) masks: oddball / low-pass kernels for all N (E2), and per-N membership.
(e) mode blocks of get_modes_slices map wavenumber to wavenumber between two
    grids, for all N (real function executed on parity-split symbolic ints, LIA).
(f) indexing="xy": the same placement obligation with xy on grid and spectrum.
(g) wavenumber kernel exact for all N <= 4096, f32 and f64 (E2).
"""
from __future__ import annotations

import itertools
from fractions import Fraction

import numpy as np
import z3

import exponax as ex
import jax.numpy as jnp

from vlib import oracle as orc
from vlib import pyk, sym
from vlib.eqinst import Encoded, In
from vlib.harness import HarnessError
from vlib.sym import Cx, Fl, ONE, ZERO


def build(ck):
    S = ex.spectral
    ck.encode_fn(ex.fft, ex.ifft, S.build_wavenumbers, S.build_scaled_wavenumbers, S.build_derivative_operator, S.build_scaling_array, S._build_scaling_array,
                 ex.get_fourier_coefficients if hasattr(ex, "get_fourier_coefficients") else S.get_fourier_coefficients, S.get_modes_slices, S.low_pass_filter_mask, S.oddball_filter_mask, ex.make_grid, ex.wrap_bc)
    quick = [(1, 5), (1, 6), (2, 4), (2, 5), (3, 3)]
    thorough = [(1, n) for n in (3, 4, 5, 6, 7, 8, 12)] + [(2, n) for n in (3, 4, 5, 6)] + [(3, 3), (3, 4)]
    grids = thorough if ck.tier == "thorough" else quick
    ck.bound("E1 grids (D,N): " + ", ".join(map(str, grids)) + "; every wavenumber vector of each grid; amplitude and phase symbolic; L symbolic")
    ck.bound("E2: all N in [1,4096] for the wavenumber kernel (f32,f64), oddball cut-off; mode blocks: all N_small < N_big (unbounded ints, parity split)")
    ck.assume("real arithmetic for array kernels; get_fourier_coefficients checked with round=None (rounding is a display convenience)")
    if _want(ck, "grid/point-count"):
        _grid_point_count(ck)
    for D, N in grids:
        if _want(ck, f"roundtrip/D{D}N{N}"):
            _roundtrip(ck, D, N)
        if _want(ck, f"grid/D{D}N{N}"):
            _grid(ck, D, N)
        if _want(ck, f"placement/D{D}N{N}"):
            _placement(ck, D, N, "ij")
        if _want(ck, f"masks/D{D}N{N}"):
            _masks_per_N(ck, D, N)
    if _want(ck, "xy"):
        for N in ((4, 5) if ck.tier == "quick" else (3, 4, 5, 6)):
            _placement(ck, 2, N, "xy")
        _placement(ck, 3, 3, "xy")
    if _want(ck, "wrap"):
        _wrap(ck)
    if _want(ck, "E2"):
        for part in (pyk.wavenumber_obligations, _oddball_all_N, _mode_blocks_all_N):
            try:
                part(ck)
            except (pyk.OutOfDate, RuntimeError, AssertionError, AttributeError, TypeError) as ex_:
                # all-N part inconclusive for this tree (never a pass); the E1 obligations at concrete N still decide the property
                ck.add_direct(f"E2/{part.__name__}/encoding", "unknown", family="E2 scalar kernels (symbolic N)", detail=f"E2 extractor does not recognise the current source: {ex_!r}")


def _want(ck, tag):
    o = getattr(ck, "only", None)
    return (not o) or (o in tag)


# ---------------------------------------------------------------------------


def _roundtrip(ck, D, N):
    tag = f"roundtrip/D{D}N{N}"
    ins = [In("u", (2,) + (N,) * D)]
    enc = Encoded(lambda u: ex.ifft(ex.fft(u), num_spatial_dims=D, num_points=N), ins)
    enc.validate(ck, what=tag, max_components=8)
    enc.compare(ck, tag, 0, ins[0].sym, [], family="ifft(fft(u)) = u")
    ck.add(f"{tag}/twin", sym.equal_goal(enc.outs[0][(0,) * (D + 1)], sym.rmul(orc.fl(2), ins[0].sym[(0,) * (D + 1)])), [], family="roundtrip/twin", expect="sat")


def _grid(ck, D, N):
    for full, centred, indexing in itertools.product((False, True), (False, True), ("ij", "xy")):
        if indexing == "xy" and D == 1:
            continue
        tag = f"grid/D{D}N{N}/full={full}/centred={centred}/{indexing}"
        ins = [In("L", (), lo=0.5, hi=3.0)]
        try:
            enc = Encoded(lambda L: ex.make_grid(D, L, N, full=full, zero_centered=centred, indexing=indexing), ins, tag="g")
        except Exception as ex_:  # noqa  (e.g. the grid needs a concrete extent): fall back to a concrete extent, same oracle
            ck.notes.append(f"{tag}: make_grid cannot be traced with a symbolic domain extent ({type(ex_).__name__}); the grid is checked at the concrete extent 1.3 instead")
            L0 = 1.3
            g = np.asarray(ex.make_grid(D, L0, N, full=full, zero_centered=centred, indexing=indexing))
            npts = N + 1 if full else N
            okshape = tuple(g.shape) == (D,) + (npts,) * D
            worst = float("inf")
            if okshape:
                worst = 0.0
                for idx in np.ndindex((npts,) * D):
                    for d in range(D):
                        ax = (1 - d) if (indexing == "xy" and d < 2) else d
                        worst = max(worst, abs(g[(d,) + idx] - (idx[ax] / N * L0 - (0.5 * L0 if centred else 0.0))))
            ck.add(f"{tag}/concrete-extent", bool(okshape and worst < 1e-12), [], family="make_grid (concrete extent)",
                   replay=lambda m, g=g, worst=worst, npts=npts: {"reproduced": True, "detail": f"make_grid(D={D}, L=1.3, N={N}, full={full}, zero_centered={centred}, indexing={indexing!r}) has shape {tuple(g.shape)} (documented {(D,) + (npts,) * D}), max deviation from j L/N: {worst:.3g}"})
            continue
        enc.validate(ck, what=tag, max_components=8)
        L = ins[0].s
        npts = N + 1 if full else N
        orac = np.empty((D,) + (npts,) * D, dtype=object)
        for idx in np.ndindex((npts,) * D):
            for d in range(D):
                # axis along which coordinate d varies: 'ij' -> axis d ; 'xy' -> first two swapped
                ax = d
                if indexing == "xy" and d < 2:
                    ax = 1 - d
                v = sym.rmul(orc.fl(Fraction(idx[ax], N)), L)
                if centred:
                    v = sym.rsub(v, sym.rmul(orc.fl(Fraction(1, 2)), L))
                orac[(d,) + idx] = v
        enc.compare(ck, tag, 0, orac, [L > 0], family="make_grid")


def _grid_point_count(ck):
    """concrete enumeration (not a solver verdict): the grid has exactly N (N+1 with full=True) points per axis, starts at 0,
    stays below L and has spacing L/N, for every N up to 300 and a set of extents -- a float-step construction such as
    arange(0, L, L/N) yields N+1 points for particular (L, N)"""
    import math

    bad = []
    for L0 in (1.0, 2.0, 3.0, 5.0, 2 * math.pi, 10.0, 60.0, 100.0):
        for N in range(1, 301):
            g = np.asarray(ex.make_grid(1, L0, N))
            if g.shape != (1, N) or g[0, 0] != 0.0 or not (g[0, -1] < L0) or abs(g[0, -1] - (N - 1) * L0 / N) > 1e-12 * L0:
                bad.append((L0, N, tuple(g.shape)))
            gf = np.asarray(ex.make_grid(1, L0, N, full=True))
            if gf.shape != (1, N + 1) or abs(gf[0, -1] - L0) > 1e-12 * L0:
                bad.append((L0, N, "full", tuple(gf.shape)))
    ck.add("grid/point-count/N<=300", not bad, [], family="make_grid: N points per axis, left-inclusive / right-exclusive (concrete enumeration)",
           replay=lambda m: {"reproduced": True, "detail": f"make_grid returns a wrong number of points / end point for (L, N, ...) in {bad[:6]}"})


def _field(D, N, m, A, B, indexing="ij"):
    """A cos(theta) - B sin(theta), theta = 2 pi m.j / N on the library's grid
    (grid point j of axis d has coordinate j L / N; with 'xy' the first two
    coordinates run along swapped array axes)"""
    u = np.empty((1,) + (N,) * D, dtype=object)
    for j in np.ndindex((N,) * D):
        coord = list(j)
        if indexing == "xy" and D >= 2:
            coord[0], coord[1] = j[1], j[0]
        num = sum(mm * jj for mm, jj in zip(m, coord))
        ph = orc.phase(num, N, +1)
        u[(0,) + j] = sym.rsub(sym.rmul(A, ph.re), sym.rmul(B, ph.im))
    return u


def _doc_scaling(D, N, m, mode):
    """documented scaling entry for wavenumber vector m"""
    def axis(k, halved_den):
        special = k == 0 or (N % 2 == 0 and abs(k) == N // 2)
        return Fraction(N) if special or halved_den == 1 else Fraction(N, 2)
    if mode == "norm_compensation":
        dens = [1] * D
    elif mode == "reconstruction":
        dens = [1] * (D - 1) + [2]
    else:
        dens = [2] * D
    out = Fraction(1)
    for k, d in zip(m, dens):
        out *= axis(k, d)
    return out


def _placement(ck, D, N, indexing):
    getc = ex.spectral.get_fourier_coefficients if hasattr(ex.spectral, "get_fourier_coefficients") else ex.get_fourier_coefficients
    wn_real = None
    modes = ["coef_extraction", "reconstruction", "norm_compensation"]
    A, B = z3.Real("A"), z3.Real("B")
    for mode in modes:
        tagm = f"placement/D{D}N{N}/{indexing}/{mode}"
        base_in = [In("u", (1,) + (N,) * D)]
        try:
            base = Encoded(lambda u: getc(u, scaling_compensation_mode=mode, round=None, indexing=indexing), base_in, tag="p")
        except Exception as ex_:
            # the real API cannot even be traced (e.g. shape mismatch of the xy layout): replay on concrete data
            msg = f"{type(ex_).__name__}: {str(ex_)[:160]}"
            ck.add(f"{tagm}/traces", False, [], family=f"placement/{indexing}", replay=lambda model, msg=msg, D=D, N=N, mode=mode: _raise_replay(getc, D, N, mode, indexing, msg))
            continue
        base.validate(ck, what=tagm, max_components=6)
        if wn_real is None:
            wn_real = np.asarray(ex.spectral.build_wavenumbers(D, N, indexing=indexing))
        # the real wavenumber array equals the documented layout (per stored index)
        if mode == modes[0]:
            for idx, m in orc.stored_modes(D, N):
                got = tuple(int(round(float(wn_real[(d,) + idx]))) for d in range(D)) if wn_real.shape[1:] == orc.spectrum_shape(D, N) else None
                mdoc = m
                if indexing == "xy" and D >= 2:
                    # channel 0 <-> coordinate x which runs along array axis 1
                    mdoc = (m[1], m[0]) + tuple(m[2:])
                ok = got == mdoc and all(float(wn_real[(d,) + idx]) == got[d] for d in range(D))
                ck.add(f"placement/D{D}N{N}/{indexing}/wavenumber-array/{'_'.join(map(str, idx))}", bool(ok), [], family=f"wavenumber array = documented layout/{indexing}",
                       replay=lambda model, got=got, mdoc=mdoc, idx=idx: {"reproduced": got != mdoc, "detail": f"build_wavenumbers(D={D},N={N},indexing={indexing}) at stored index {idx} is {got}, documented {mdoc}"})
        for m in orc.all_modes(D, N):
            if m[-1] < 0 or (m[-1] in (0, N // 2 if N % 2 == 0 else -1) and m < tuple(-x % N if (N % 2 == 0 and abs(x) == N // 2) else -x for x in m)):
                pass  # keep all: placement is per physical field; duplicates (m, -m) give the same field up to B -> -B
            mphys = m
            if indexing == "xy" and D >= 2:
                mphys = (m[1], m[0]) + tuple(m[2:])  # wavenumber vector in (x, y, ..) order for the array-axis vector m
            fld = _field(D, N, mphys, A, B, indexing)
            enc = base.clone_with([In("u", (1,) + (N,) * D, sym_arr=fld)], tag="p")
            # documented half spectrum of A cos(theta_m) - B sin(theta_m): two-sided coefficients (A + iB)/2 at m, (A - iB)/2 at -m
            two = {}
            def addc(k, v):
                k = tuple(orc.wn_full(kk % N, N) for kk in k)
                two[k] = sym.cadd(two[k], v) if k in two else v
            half = orc.fl(Fraction(1, 2))
            addc(m, Cx(sym.rmul(half, A), sym.rmul(half, B)))
            addc(tuple(-x for x in m), Cx(sym.rmul(half, A), sym.rneg(sym.rmul(half, B))))
            orac = np.empty((1,) + orc.spectrum_shape(D, N), dtype=object)
            for idx, k in orc.stored_modes(D, N):
                # stored wavenumber k (last >= 0); on even grids the stored last-axis Nyquist is +N/2 == -N/2
                kk = tuple(orc.wn_full(x % N, N) for x in k)
                c = two.get(kk, Cx(ZERO, ZERO))
                sc = _doc_scaling(D, N, k, mode)
                orac[(0,) + idx] = sym.cscale(c, orc.fl(Fraction(N**D) / sc))
            name = f"{tagm}/m={'_'.join(map(str, m))}"
            enc.compare(ck, name, 0, orac, [], family=f"placement/{indexing}/{mode}")
        # twin
        ck.add(f"{tagm}/twin", sym.equal_goal(enc.outs[0][(0,) * (D + 1)], Cx(A, ZERO)), [], family="placement/twin", expect="sat")


def _raise_replay(getc, D, N, mode, indexing, msg):
    try:
        getc(jnp.ones((1,) + (N,) * D), scaling_compensation_mode=mode, round=None, indexing=indexing)
    except Exception as ex_:
        return {"reproduced": True, "detail": f"get_fourier_coefficients(indexing={indexing!r}, D={D}, N={N}, mode={mode}) raises {type(ex_).__name__}: {str(ex_)[:200]}"}
    return {"reproduced": False, "detail": "tracing failed but the concrete call succeeds: " + msg}


def _masks_per_N(ck, D, N):
    """membership of every stored mode in the masks equals the documented predicate (concrete per N)"""
    S = ex.spectral
    odd = np.asarray(S.oddball_filter_mask(D, N))[0]
    for idx, m in orc.stored_modes(D, N):
        want = not orc.is_nyquist(m, N)
        ck.add(f"masks/D{D}N{N}/oddball/{'_'.join(map(str, idx))}", bool(odd[idx]) == want, [], family="oddball mask",
               replay=lambda model, idx=idx, want=want: {"reproduced": True, "detail": f"oddball_filter_mask({D},{N}) at {idx}: {bool(odd[idx])}, documented {want}"})
    for cutoff in range(0, N // 2 + 1):
        for sep in (True, False):
            lp = np.asarray(S.low_pass_filter_mask(D, N, cutoff=cutoff, axis_separate=sep))[0]
            bad = []
            for idx, m in orc.stored_modes(D, N):
                want = max(abs(x) for x in m) <= cutoff if sep else sum(x * x for x in m) <= cutoff * cutoff
                if bool(lp[idx]) != want:
                    bad.append((idx, m))
            ck.add(f"masks/D{D}N{N}/lowpass/cutoff{cutoff}/sep={sep}", not bad, [], family="low-pass mask",
                   replay=lambda model, bad=bad, cutoff=cutoff, sep=sep: {"reproduced": True, "detail": f"low_pass_filter_mask({D},{N},cutoff={cutoff},axis_separate={sep}) wrong at {bad[:4]}"})


def _wrap(ck):
    for D, N in ((1, 4), (2, 3)):
        ins = [In("u", (2,) + (N,) * D)]
        enc = Encoded(lambda u: ex.wrap_bc(u), ins, tag="w")
        u = ins[0].sym
        orac = np.empty((2,) + (N + 1,) * D, dtype=object)
        for idx in np.ndindex(orac.shape):
            orac[idx] = u[(idx[0],) + tuple(i % N for i in idx[1:])]
        enc.compare(ck, f"wrap/D{D}N{N}", 0, orac, [], family="wrap_bc")


# ---------------------------------------------------------------------------
# E2-style obligations
# ---------------------------------------------------------------------------


def _oddball_all_N(ck):
    """for every even N: |k| <= cutoff(N)  <=>  |k| != N/2 on |k| <= N/2 (cutoff from the AST)"""
    import ast

    tree = pyk._src_ast(ex.spectral.oddball_filter_mask)
    env = {"num_points": pyk.V("int", "N")}
    for name in ("nyquist_mode", "mode_below_nyquist"):
        env[name] = pyk.py_expr(pyk._find_assign(tree, name), env)
    calls = [n for n in ast.walk(tree) if isinstance(n, ast.Call) and pyk._attr_chain(n.func).endswith("low_pass_filter_mask")]
    kw = {k.arg: k.value for k in calls[0].keywords}
    cut = pyk.py_expr(kw["cutoff"], env)
    half = f"(bvudiv N {pyk.bv(2)})"
    txt = (pyk.header(f"(assert (= (bvurem N {pyk.bv(2)}) {pyk.bv(0)}))\n(assert (bvule j {half}))\n") +
           f"(assert (not (= (bvsle j {cut.s}) (not (= j {half})))))\n(check-sat)\n(get-value (N j))\n")
    st, vals, t, raw = pyk.run_text(txt, 120)
    ck.add_direct("E2/oddball-cutoff", st, family="oddball cut-off (all even N<=4096)", detail=f"{st} {vals} {t:.1f}s", t=t,
                  replay=lambda model: {"reproduced": True, "detail": f"oddball cut-off wrong at N={vals.get('N')}, k={vals.get('j')}"})
    ck.obls[-1].text = ck.obls[-1].goal_text = txt


class PInt:
    """symbolic non-negative integer 2*q + r with concrete parity r, q a z3 Int:
    enough arithmetic for the real get_modes_slices to run on it"""

    def __init__(self, lin, parity=None):
        self.v = lin  # z3 Int expr
        self.parity = parity

    def __mod__(self, k):
        assert k == 2 and self.parity is not None
        return self.parity

    def __floordiv__(self, k):
        assert k == 2 and self.parity is not None
        return PInt((self.v - self.parity) / 2)

    def __add__(self, o):
        return PInt(self.v + (o.v if isinstance(o, PInt) else o))

    __radd__ = __add__

    def __sub__(self, o):
        return PInt(self.v - (o.v if isinstance(o, PInt) else o))

    def __neg__(self):
        return PInt(-self.v)


def _mode_blocks_all_N(ck):
    """get_modes_slices(D, M) applied to an axis of length M (small grid) and of
    length N >= M (big grid): every selected position carries the same
    wavenumber on both grids; the blocks are disjoint and cover the small axis
    (minus the Nyquist index on even M)."""
    gms = ex.spectral.get_modes_slices
    t0 = __import__("time").time()
    n_obl = 0
    for par_m in (0, 1):
        q = z3.Int("q")
        M = PInt(2 * q + par_m, par_m)
        sl = gms(2, M)  # ((:, lead_left, last), (:, lead_right, last))
        assert len(sl) == 2 and all(len(b) == 3 for b in sl)
        left, right, last = sl[0][1], sl[1][1], sl[0][2]
        if not (sl[1][2] == last or (sl[1][2].stop.v.eq(last.stop.v))):
            raise HarnessError("mode blocks: unexpected structure")
        val = lambda x: x.v if isinstance(x, PInt) else x
        Mv = 2 * q + par_m
        Nbig, i = z3.Int("Nbig"), z3.Int("i")
        wn = lambda idx, n: z3.If(idx <= (n - 1) / 2 if False else idx * 2 < n, idx, idx - n) if False else None
        def wn_full(idx, n):
            # documented: (idx + n//2) % n - n//2 ; for 0<=idx<n equals idx if idx < n - n//2 ... handle both parities generally
            return z3.If(idx + n / 2 >= n, idx - n, idx)  # n/2 is integer division in z3 Int
        pre = [q >= 1, Nbig >= Mv]
        s = z3.Solver()
        obligations = []
        # left block: positions [0, stop)
        assert left.start is None and left.step is None
        stopL = val(left.stop)
        obligations.append(("left-block", z3.Implies(z3.And(i >= 0, i < stopL), z3.And(i < Mv, wn_full(i, Mv) == wn_full(i, Nbig), wn_full(i, Mv) >= 0))))
        # right block: positions [len + start, len) with start negative
        assert right.stop is None and right.step is None
        startR = val(right.start)
        obligations.append(("right-block", z3.Implies(z3.And(i >= 1, i <= -startR), z3.And(Mv - i >= 0, wn_full(Mv - i, Mv) == wn_full(Nbig - i, Nbig), wn_full(Mv - i, Mv) == -i))))
        # disjoint on the small axis and covering every wavenumber below Nyquist
        obligations.append(("disjoint", stopL <= Mv + startR))
        obligations.append(("cover", z3.Implies(z3.And(i >= 0, i < Mv, z3.Not(z3.And(par_m == 0, 2 * i == Mv))), z3.Or(i < stopL, i >= Mv + startR))))
        # last (halved) axis: [0, stop) with stop = M//2 + 1 -> same non-negative wavenumber
        assert last.start is None
        stopH = val(last.stop)
        obligations.append(("last-axis", z3.And(stopH == Mv / 2 + 1, stopH <= Nbig / 2 + 1)))
        for nm, g in obligations:
            s = z3.Solver()
            s.add(*pre)
            s.add(z3.Not(g))
            r = str(s.check())
            ck.add_direct(f"E2/mode-blocks/{'even' if par_m == 0 else 'odd'}/{nm}", r, family="mode blocks (all N, LIA)", detail=f"{r} {s.model() if r == 'sat' else ''}",
                          replay=lambda model, nm=nm, par_m=par_m: {"reproduced": True, "detail": f"get_modes_slices block property '{nm}' fails for {'even' if par_m == 0 else 'odd'} N"})
            ck.obls[-1].text = ck.obls[-1].goal_text = s.to_smt2()
            n_obl += 1
