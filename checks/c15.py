"""C15 -- Fourier interpolation and resolution changes are exact for band-limited states.

Interpolator: (I1) for a Nyquist-free trigonometric polynomial with symbolic
coefficients and a SYMBOLIC query point x (inside or outside the domain) the
real FourierInterpolator returns the analytic value.  exp is Ackermannised;
the harness proves that the code's exponent for stored mode m is i*sum_d m_d
theta_d with theta_d = 2 pi x_d / L, and then uses the sound instance
exp(i sum m_d theta_d) = prod_d e_d^{m_d}, |e_d| = 1.  (I2) at every grid
point the interpolant reproduces an ARBITRARY symbolic state (Nyquist content
included), using exp(2 pi i q / N) = exact twiddle.
Resolution change: map_between_resolutions(u, M) equals the polynomial sampled
on the M-grid for every ordered pair of the bound set (both oddball settings)
when the content is below both Nyquist limits; up-then-down is the identity;
every resolution change preserves the mean of an arbitrary symbolic state.
"""
from __future__ import annotations

import itertools
from fractions import Fraction

import numpy as np
import z3

import exponax as ex
import jax.numpy as jnp

from checks.c05 import sample, trig_field
from vlib import oracle as orc
from vlib import sym
from vlib.eqinst import Encoded, In
from vlib.sym import Cx, Fl, ONE, ZERO


def build(ck):
    ck.encode_fn(ex.FourierInterpolator, ex.map_between_resolutions, ex.spectral.get_modes_slices, ex.spectral.build_scaling_array, ex.spectral.oddball_filter_mask, ex.spectral.build_scaled_wavenumbers)
    thorough = ck.tier == "thorough"
    ck.bound("interpolator: 1D N in {5,6} (+7,8), 2D N in {4,5} (+3D N=3); resolution pairs 1D over {4,5,6,7,8} (quick: 8 pairs incl. N+-1 and all parities), 2D over {4,5,6}; L and the query point symbolic; all coefficients symbolic")
    ck.assume("real arithmetic; exp Ackermannised: exp(i sum_d m_d theta_d) = prod_d exp(i theta_d)^{m_d} and exp(2 pi i q/N) = the exact N-th root of unity are the only facts used (after the exponent is proved to have that form)")
    only = getattr(ck, "only", None)
    want = lambda t: (not only) or only in t
    for D, N in [(1, 5), (1, 6), (2, 4), (2, 5)] + ([(1, 7), (1, 8), (3, 3)] if thorough else []):
        if want(f"interp/analytic/D{D}N{N}"):
            _interp_analytic(ck, D, N)
        if want(f"interp/grid/D{D}N{N}") and N**D <= 36:
            _interp_grid(ck, D, N)
    pairs1 = [(5, 6), (6, 5), (6, 8), (8, 6), (5, 7), (7, 5), (4, 6), (6, 4), (8, 4), (4, 8), (6, 3), (3, 6)] if not thorough else [(a, b) for a in (4, 5, 6, 7, 8) for b in (4, 5, 6, 7, 8) if a != b]
    for a, b in pairs1:
        if want(f"resize/D1/{a}to{b}"):
            _resize(ck, 1, a, b)
    for a, b in [(4, 5), (5, 4), (5, 6), (6, 5), (6, 3)] + ([(4, 6), (6, 4), (3, 5), (5, 3), (3, 6)] if thorough else []):  # odd and even common sizes
        if want(f"resize/D2/{a}to{b}"):
            _resize(ck, 2, a, b)
    if thorough and want("resize/D3"):
        _resize(ck, 3, 3, 4)
        _resize(ck, 3, 4, 3)


def _mean_replay(D, N_old, N_new, oddball):
    def replay(model):
        rng = np.random.default_rng(4)
        worst, what = 0.0, ""
        g = ex.make_grid(D, 1.0, N_old)
        top = jnp.cos(2 * np.pi * N_new * g[0:1])  # a mode the new grid cannot resolve, on top of a non-zero mean
        for nm, v in (("white noise", jnp.asarray(rng.normal(size=(1,) + (N_old,) * D))), (f"1 + cos(2 pi {N_new} x)", 1.0 + top)):
            w = ex.map_between_resolutions(v, N_new, oddball_zero=oddball)
            e = abs(float(jnp.mean(w)) - float(jnp.mean(v)))
            if e > worst:
                worst, what = e, nm
        return {"reproduced": worst > 1e-9, "detail": f"map_between_resolutions {N_old}->{N_new} (D={D}, oddball_zero={oddball}) changes the mean of {what} by {worst:.3g}"}

    return replay


def _interp_analytic(ck, D, N):
    tag = f"interp/analytic/D{D}N{N}"
    C = 1
    fld, coeffs = trig_field(D, N, C)
    ins = [In("L", (), lo=0.5, hi=3.0), In("x", (D,), lo=-2.0, hi=4.0), In("u", (C,) + (N,) * D, sym_arr=fld)]
    enc = Encoded(lambda L, x, u: ex.FourierInterpolator(u, domain_extent=L)(x), ins, tag="fi")
    enc.validate(ck, what=tag)
    L, x = ins[0].s, ins[1].sym
    W = orc.two_pi_over(L)
    calls = enc.interp.calls["exp"]
    assert len(calls) == 1
    arg, E = calls[0]["arg"], calls[0]["out"]
    e = [Cx(z3.Real(f"e{d}_re"), z3.Real(f"e{d}_im")) for d in range(D)]
    facts = [ed.re * ed.re + ed.im * ed.im == 1 for ed in e]

    def epow(d, k):
        base = e[d] if k >= 0 else sym.cconj(e[d])
        out = Cx(ONE, ZERO)
        for _ in range(abs(k)):
            out = sym.cmul(out, base)
        return out

    pre = [L > 0]
    for idx, m in orc.stored_modes(D, N):
        want_arg = Cx(ZERO, sym.rsum([sym.rmul(sym.rmul(orc.fl(m[d]), W), x[d]) for d in range(D)]))
        ck.add(f"{tag}/exponent/{'_'.join(map(str, idx))}", sym.equal_goal(sym.asc(arg[idx]), want_arg), pre, family="interpolator: exponent of stored mode m is i k_m.x", replay=_interp_replay(D, N))
        prod = Cx(ONE, ZERO)
        for d in range(D):
            prod = sym.cmul(prod, epow(d, m[d]))
        Em = sym.asc(E[idx])
        if not sym.is_conc(Em):
            facts += [Em.re == sym.zr(prod.re), Em.im == sym.zr(prod.im)]
    # analytic value: Re sum over two-sided modes c_m prod_d e_d^{m_d}
    terms = []
    for m, c in coeffs[0].items():
        prod = Cx(ONE, ZERO)
        for d in range(D):
            prod = sym.cmul(prod, epow(d, m[d]))
        terms.append(sym.cmul(c, prod))
    want_val = orc.csum(terms).re
    ck.add(f"{tag}/value", sym.equal_goal(enc.outs[0][0], want_val), pre + facts, family="interpolator: analytic value at an arbitrary query point", timeout=240, replay=_interp_replay(D, N))
    ck.add(f"{tag}/twin", sym.equal_goal(enc.outs[0][0], sym.rmul(orc.fl(2), want_val)), pre + facts, family="C15/twin", expect="sat", timeout=240)


def _interp_replay(D, N):
    def replay(model):
        # every single mode below Nyquist (all signs on the leading axes, top mode of odd N included), random
        # phase, random query points inside and outside the domain: real interpolant vs the analytic value
        rng = np.random.default_rng(0)
        L = 1.7
        g = np.asarray(ex.make_grid(D, L, N))
        worst = (0.0, None, None)
        for m in orc.all_modes(D, N, below_nyquist=True):
            ph = rng.uniform(0, 2 * np.pi)
            f = lambda X, m=m, ph=ph: np.cos(2 * np.pi * sum(mm * X[d] for d, mm in enumerate(m)) / L + ph) + 0.5
            u = jnp.asarray(f(g))[None]
            fi = ex.FourierInterpolator(u, domain_extent=L)
            for _ in range(2):
                x = rng.uniform(-L, 2 * L, size=(D,))
                e = abs(float(fi(jnp.asarray(x))[0]) - float(f(x)))
                if e > worst[0]:
                    worst = (e, m, x.tolist())
        return {"reproduced": worst[0] > 1e-8, "detail": f"FourierInterpolator D={D} N={N}: largest deviation from the analytic value {worst[0]:.3g} for mode {worst[1]} at x={worst[2]}"}

    return replay


def _grid_replay(D, N):
    def replay(model):
        rng = np.random.default_rng(1)
        L = 2.3
        u = jnp.asarray(rng.normal(size=(1,) + (N,) * D))
        g = np.asarray(ex.make_grid(D, L, N))
        fi = ex.FourierInterpolator(u, domain_extent=L)
        e = max(abs(float(fi(jnp.asarray(g[(slice(None),) + j]))[0]) - float(u[(0,) + j])) for j in np.ndindex((N,) * D))
        return {"reproduced": e > 1e-8, "detail": f"FourierInterpolator D={D} N={N} on a random state: largest grid-point deviation {e:.3g}"}

    return replay


def _interp_grid(ck, D, N):
    tag = f"interp/grid/D{D}N{N}"
    ins = [In("L", (), lo=0.5, hi=3.0), In("u", (1,) + (N,) * D)]
    u = ins[1].sym
    pts = list(np.ndindex((N,) * D))
    if ck.tier != "thorough" and len(pts) > 9:
        pts = pts[:: max(1, len(pts) // 9)]
    for j in pts:
        # the query point is the library's own grid point (exactly j L / N, see C04)
        enc = Encoded(lambda L, u, j=j: ex.FourierInterpolator(u, domain_extent=L)(ex.make_grid(D, L, N)[(slice(None),) + j]), ins, tag="fg")
        L = ins[0].s
        calls = enc.interp.calls.get("exp", [])
        facts = []
        pi2 = sym.zr(sym.rmul(orc.fl(2), Fl(3.141592653589793, sym.PI())))
        arg, E = (calls[0]["arg"], calls[0]["out"]) if calls else (None, None)
        for idx, m in (orc.stored_modes(D, N) if calls else []):
            q = sum(mm * jj for mm, jj in zip(m, j))
            a = sym.asc(arg[idx])
            if sym.is_conc(a):
                continue
            ck.add(f"{tag}/j={'_'.join(map(str, j))}/exponent/{'_'.join(map(str, idx))}", sym.equal_goal(a, Cx(ZERO, pi2 * sym.qv(Fraction(q, N)))), [L > 0], family="interpolator at grid points: exponent is 2 pi i m.j/N")
            ph = orc.phase(q, N, +1)
            Em = sym.asc(E[idx])
            facts += [Em.re == sym.zr(ph.re), Em.im == sym.zr(ph.im)]
        ck.add(f"{tag}/j={'_'.join(map(str, j))}/value", sym.equal_goal(enc.outs[0][0], u[(0,) + j]), [L > 0] + facts, family="interpolator reproduces every state at its grid points", timeout=120,
               replay=_grid_replay(D, N))


def _resize(ck, D, N_old, N_new):
    K = (min(N_old, N_new) - 1) // 2  # content strictly below both Nyquist limits
    for oddball in (True, False):
        tag = f"resize/D{D}/{N_old}to{N_new}/oddball={oddball}"
        # band-limited trigonometric polynomial: reuse trig_field on the old grid but drop modes above K
        fld, coeffs = trig_field(D, N_old, 1)
        two = {m: c for m, c in coeffs[0].items() if max(abs(x) for x in m) <= K}
        fld = sample(two, D, N_old)[None]
        ins = [In("u", (1,) + (N_old,) * D, sym_arr=fld)]
        enc = Encoded(lambda u, oddball=oddball: ex.map_between_resolutions(u, N_new, oddball_zero=oddball), ins, tag="rz")
        enc.validate(ck, what=tag, max_components=6)
        enc.compare(ck, f"{tag}/exact", 0, sample(two, D, N_new)[None], [], family="map_between_resolutions samples the same band-limited function", timeout=120)
        # round trip
        enc2 = Encoded(lambda u, oddball=oddball: ex.map_between_resolutions(ex.map_between_resolutions(u, N_new, oddball_zero=oddball), N_old, oddball_zero=oddball), ins, tag="rz2")
        enc2.compare(ck, f"{tag}/roundtrip", 0, fld, [], family="resolution round trip is the identity on band-limited states", timeout=120)
        # mean of an arbitrary state
        insf = [In("v", (1,) + (N_old,) * D)]
        enc3 = Encoded(lambda v, oddball=oddball: jnp.mean(ex.map_between_resolutions(v, N_new, oddball_zero=oddball)), insf, tag="rz3")
        v = insf[0].sym
        mean_in = sym.rmul(orc.fl(Fraction(1, N_old**D)), sym.rsum([v[i] for i in np.ndindex(v.shape)]))
        ck.add(f"{tag}/mean", sym.equal_goal(enc3.outs[0][()], mean_in), [], family="every resolution change preserves the mean of any state", timeout=120,
               replay=_mean_replay(D, N_old, N_new, oddball))
    ck.add(f"resize/D{D}/{N_old}to{N_new}/twin", sym.equal_goal(enc.outs[0][(0,) * (D + 1)], sym.rmul(orc.fl(2), fld[(0,) * (D + 1)])), [], family="C15/twin", expect="sat")
