"""C09 -- conserved quantities and equilibria survive the discretisation exactly.

(1) mean: (a) real conservation-form steppers at order 1 with symbolic L, dt,
    parameters and a symbolic band-limited Hermitian spectrum: the DC mode of
    every channel is unchanged; (b) one ETDRK step of every order with an opaque
    nonlinear term whose DC output is zero leaves the DC mode multiplied by
    E[DC] only (modular; E[DC]=1 is (a)'s exp(0)); twin: a non-conservative
    form changes the mean.
(2) no work: sum_x u.N(u) = 0 (1D Burgers-type conservative convection; 2D
    vorticity convection against omega and psi; 3D rotational convection on
    divergence-free input) for symbolic band-limited spectra.
(3) fixed points: (a) N(const) = 0 and Lambda(0) = 0 for the convection /
    Cahn-Hilliard / Gray-Scott(1,0) equilibria, (b) balancing equilibria
    (Fisher u*=1, Allen-Cahn u*^2 = -c1/c3) are fixed points of the ETDRK-p
    stage formulas with exact phi-coefficients.
"""
from __future__ import annotations

from fractions import Fraction

import numpy as np
import z3

import exponax as ex
import jax.numpy as jnp

from vlib import oracle as orc
from vlib import sym
from vlib.eqinst import Encoded, In
from vlib.jx2smt import hermitian_spectrum
from vlib.modular import Step, amap, leaf_names
from vlib.sym import Cx, ONE, ZERO

NF = ex.nonlin_fun
S = ex.stepper
F23 = Fraction(2, 3)


def _do(L, D, N):
    return ex.spectral.build_derivative_operator(D, L, N)


def conservative_steppers(D, N):
    """(name, channels, fraction, n_params, make(L, dt, p) -> stepper of order 1)"""
    out = []
    out.append(("Burgers/single-channel-conservative", 1, F23, 2, lambda L, dt, p: S.Burgers(D, L, N, dt, diffusivity=p[0], convection_scale=p[1], single_channel=True, conservative=True, order=1)))
    out.append(("Burgers/multi-channel-conservative", D, F23, 2, lambda L, dt, p: S.Burgers(D, L, N, dt, diffusivity=p[0], convection_scale=p[1], conservative=True, order=1)))
    out.append(("KortewegDeVries/conservative", D, F23, 3, lambda L, dt, p: S.KortewegDeVries(D, L, N, dt, dispersivity=p[0], hyper_diffusivity=p[1], convection_scale=p[2], conservative=True, order=1)))
    out.append(("KuramotoSivashinskyConservative", D, F23, 3, lambda L, dt, p: S.KuramotoSivashinskyConservative(D, L, N, dt, convection_scale=p[0], second_order_scale=p[1], fourth_order_scale=p[2], conservative=True, order=1) if D > 1 else S.KuramotoSivashinskyConservative(D, L, N, dt, convection_scale=p[0], second_order_scale=p[1], fourth_order_scale=p[2], order=1)))
    out.append(("KuramotoSivashinsky/combustion", 1, F23, 3, lambda L, dt, p: S.KuramotoSivashinsky(D, L, N, dt, gradient_norm_scale=p[0], second_order_scale=p[1], fourth_order_scale=p[2], order=1)))
    out.append(("CahnHilliard", 1, Fraction(1, 2), 2, lambda L, dt, p: S.reaction.CahnHilliard(D, L, N, dt, diffusivity=p[0], gamma=p[1], order=1)))
    if D == 2:
        out.append(("NavierStokesVorticity/drag=0", 1, F23, 2, lambda L, dt, p: S.NavierStokesVorticity(D, L, N, dt, diffusivity=p[0], vorticity_convection_scale=p[1], drag=0.0, order=1)))
    return out


def build(ck):
    ck.encode_fn(S.Burgers, S.KortewegDeVries, S.KuramotoSivashinsky, S.KuramotoSivashinskyConservative, S.reaction.CahnHilliard, S.NavierStokesVorticity, S.NavierStokesVelocity, S.reaction.FisherKPP,
                 S.reaction.AllenCahn, S.reaction.GrayScott, NF.ConvectionNonlinearFun, NF.GradientNormNonlinearFun, NF.VorticityConvection2d, NF.ProjectedConvection3d, ex.etdrk.ETDRK1, ex.etdrk.ETDRK2, ex.etdrk.ETDRK3, ex.etdrk.ETDRK4)
    thorough = ck.tier == "thorough"
    ck.bound("mean: 1D N in {6,8}(+12), 2D N=6, real steppers at order 1 + modular step orders 1-4; no-work: 1D N in {6,8,12}, 2D N in {6,8}, 3D N=6; L, dt, all parameters symbolic; band-limited Hermitian spectra symbolic")
    ck.assume("real arithmetic; the state is the rfft of a real field; balancing equilibria use exact phi-coefficients (C02's quadrature hypothesis); 3D claims need divergence-free input")
    only = getattr(ck, "only", None)
    want = lambda t: (not only) or only in t
    grids = [(1, 6), (1, 8), (2, 6)] + ([(1, 12), (1, 7)] if thorough else [])
    for D, N in grids:
        for name, C, frac, npar, make in conservative_steppers(D, N):
            if want(f"mean/{name}/D{D}N{N}"):
                _mean_order1(ck, name, D, N, C, frac, npar, make)
    if want("mean/modular"):
        for order in (1, 2, 3, 4):
            _mean_modular(ck, order)
    if want("mean/twin"):
        _mean_twin(ck)
    if want("nowork"):
        for N in (6, 8) + ((12,) if thorough else ()):
            _nowork_1d(ck, N)
        _nowork_vorticity(ck, 6)
        _nowork_3d(ck, 6)
    if want("fixed"):
        _fixed_constants(ck)
        for order in (1, 2, 3, 4):
            _balancing(ck, order)
        _balancing_lemmas(ck)


def _mean_order1(ck, name, D, N, C, frac, npar, make):
    tag = f"mean/{name}/D{D}N{N}"
    K = orc.retained_band(N, frac)
    uh = hermitian_spectrum("u", N, D, C)  # full content: whatever lies outside the band must not matter either
    spec = uh.shape
    ins = [In("L", (), lo=0.5, hi=2.0), In("dt", (), lo=0.01, hi=0.05), In("p", (npar,), lo=0.1, hi=1.0), In("uh", spec, "complex", sym_arr=uh)]

    def f(L, dt, p, uh):
        return make(L, dt, p).step_fourier(uh)

    enc = Encoded(f, ins, tag="m")
    L = ins[0].s
    dc = (0,) * D
    for c in range(C):
        ck.add(f"{tag}/channel{c}", sym.equal_goal(enc.outs[0][(c,) + dc], uh[(c,) + dc]), [L > 0], family=f"mean unchanged/{name}", timeout=120,
               replay=_mean_replay(name, D, N, make))


def _mean_replay(name, D, N, make):
    def replay(model):
        rng = np.random.default_rng(0)
        s = make(1.3, 0.02, jnp.asarray([0.3, 0.7, 0.5]))
        u = jnp.asarray(rng.normal(size=(s.num_channels,) + (N,) * D))
        v = s(u)
        e = float(jnp.max(jnp.abs(jnp.mean(v, axis=tuple(range(1, D + 1))) - jnp.mean(u, axis=tuple(range(1, D + 1))))))
        return {"reproduced": e > 1e-9, "detail": f"{name} D={D} N={N}: |mean(step(u)) - mean(u)| = {e:.3g} on a random state"}

    return replay


def _mean_modular(ck, order):
    st = Step(order, (1, 1), tag=f"mm{order}")
    lemma = []
    for n_out in st.n_outs():
        v = sym.asc(n_out[0, 0])
        lemma += [v.re == 0, v.im == 0]
    rhs = sym.cmul(sym.asc(st.P["_exp_term"][0, 0]), sym.asc(st.uh[0, 0]))
    ck.add(f"mean/modular/order{order}", sym.equal_goal(st.out[0, 0], rhs), lemma, family="ETDRK step: DC(out) = E[DC] DC(u) when DC(N) = 0")
    ck.add(f"mean/modular/order{order}/twin", sym.equal_goal(st.out[0, 0], rhs), [], family="mean/twin", expect="sat")


def _mean_twin(ck):
    """the non-conservative single-channel Burgers form does change the mean"""
    N, D = 6, 1
    uh = hermitian_spectrum("u", N, D, 1)
    ins = [In("L", (), lo=0.5, hi=2.0), In("uh", uh.shape, "complex", sym_arr=uh)]
    enc = Encoded(lambda L, uh: NF.ConvectionNonlinearFun(D, N, derivative_operator=_do(L, D, N), dealiasing_fraction=2 / 3, scale=1.0, single_channel=True, conservative=False)(uh), ins, tag="mt")
    # in 1D u u_x = (u^2/2)_x has zero mean as well; the 2D multi-channel non-conservative form does not
    N2 = 6
    uh2 = hermitian_spectrum("v", N2, 2, 2, band=1)
    ins2 = [In("L", (), lo=0.5, hi=2.0), In("uh", uh2.shape, "complex", sym_arr=uh2)]
    enc2 = Encoded(lambda L, uh: NF.ConvectionNonlinearFun(2, N2, derivative_operator=_do(L, 2, N2), dealiasing_fraction=2 / 3, scale=1.0, single_channel=False, conservative=False)(uh), ins2, tag="mt2")
    ck.add("mean/twin/nonconservative-2d", sym.equal_goal(enc2.outs[0][0, 0, 0], Cx(ZERO, ZERO)), [ins2[0].s > 0], family="mean/twin", expect="sat")


# ---------------------------------------------------------------------------


def _inner(a, b):
    return jnp.sum(a * b)


def _nowork_1d(ck, N):
    K = orc.retained_band(N, F23)
    # FULL spectrum (content up to Nyquist): the term only sees the dealiased part of u and is itself confined
    # to the band, so <u, N(u)> = <u_K, N(u_K)> = 0 for every state -- which also pins the width of the band
    # (one retained mode too many aliases at N divisible by 6)
    uh = hermitian_spectrum("u", N, 1, 1)
    ins = [In("L", (), lo=0.5, hi=2.0), In("b", (), lo=0.5, hi=2.0), In("uh", uh.shape, "complex", sym_arr=uh)]

    def f(L, b, uh):
        nf = NF.ConvectionNonlinearFun(1, N, derivative_operator=_do(L, 1, N), dealiasing_fraction=2 / 3, scale=b, single_channel=True, conservative=True)
        u = ex.ifft(uh, num_spatial_dims=1, num_points=N)
        n = ex.ifft(nf(uh), num_spatial_dims=1, num_points=N)
        return _inner(u, n)

    enc = Encoded(f, ins, tag="nw1")
    enc.validate(ck, what=f"nowork/1d/N{N}")
    ck.add(f"nowork/burgers1d/N{N}", sym.equal_goal(enc.outs[0][()], ZERO), [ins[0].s > 0], family="no work: <u, N(u)> = 0 (1D conservative convection)", timeout=120)  # generic replay: the real term at the model's state
    # twin: a plain quadratic reaction term does work
    def g(L, b, uh):
        nf = NF.PolynomialNonlinearFun(1, N, dealiasing_fraction=2 / 3, coefficients=[0.0, 0.0, b])
        u = ex.ifft(uh, num_spatial_dims=1, num_points=N)
        return _inner(u, ex.ifft(nf(uh), num_spatial_dims=1, num_points=N))

    enc2 = Encoded(g, ins, tag="nw1t")
    ck.add(f"nowork/burgers1d/N{N}/twin", sym.equal_goal(enc2.outs[0][()], ZERO), [ins[0].s > 0], family="nowork/twin", expect="sat", timeout=120)


def _nowork_vorticity(ck, N):
    K = orc.retained_band(N, F23)
    uh = hermitian_spectrum("w", N, 2, 1, band=K)
    ins = [In("L", (), lo=0.5, hi=2.0), In("uh", uh.shape, "complex", sym_arr=uh)]

    def f(L, uh):
        do = _do(L, 2, N)
        nf = NF.VorticityConvection2d(2, N, derivative_operator=do, dealiasing_fraction=2 / 3)
        w = ex.ifft(uh, num_spatial_dims=2, num_points=N)
        lap = ex.spectral.build_laplace_operator(do)
        psi_hat = jnp.where(lap == 0, 0.0, uh / jnp.where(lap == 0, 1.0, lap))
        psi = ex.ifft(psi_hat, num_spatial_dims=2, num_points=N)
        n = ex.ifft(nf(uh), num_spatial_dims=2, num_points=N)
        return _inner(w, n), _inner(psi, n)

    enc = Encoded(f, ins, tag="nwv")
    enc.validate(ck, what="nowork/vorticity")
    ck.add(f"nowork/vorticity2d/N{N}/enstrophy", sym.equal_goal(enc.outs[0][()], ZERO), [ins[0].s > 0], family="no work: <omega, N(omega)> = 0 (enstrophy)", timeout=240)
    ck.add(f"nowork/vorticity2d/N{N}/energy", sym.equal_goal(enc.outs[1][()], ZERO), [ins[0].s > 0], family="no work: <psi, N(omega)> = 0 (energy)", timeout=240)


def _nowork_3d(ck, N):
    K = orc.retained_band(N, F23)
    uh = hermitian_spectrum("u", N, 3, 3, band=K)
    ins = [In("L", (), lo=0.5, hi=2.0), In("uh", uh.shape, "complex", sym_arr=uh)]

    def f(L, uh):
        nf = NF.ProjectedConvection3d(3, N, derivative_operator=_do(L, 3, N))
        u = ex.ifft(uh, num_spatial_dims=3, num_points=N)
        n = ex.ifft(nf(uh), num_spatial_dims=3, num_points=N)
        return _inner(u, n)

    enc = Encoded(f, ins, tag="nw3")
    # precondition: divergence-free (k . u_k = 0 for every retained mode)
    pre = [ins[0].s > 0]
    for idx, m in orc.stored_modes(3, N):
        if max(abs(x) for x in m) > K:
            continue
        d = orc.csum([sym.cscale(sym.asc(uh[(c,) + idx]), orc.fl(m[c])) for c in range(3)])
        for part in (d.re, d.im):
            g = sym.rcmp("eq", part, ZERO)
            if not isinstance(g, bool):
                pre.append(g)
    ck.add(f"nowork/rotational3d/N{N}", sym.equal_goal(enc.outs[0][()], ZERO), pre, family="no work: <u, P(u x omega)> = 0 on divergence-free states", timeout=600, stretch=(ck.tier != "thorough"))


# ---------------------------------------------------------------------------


def _fixed_constants(ck):
    """N(constant state) = 0 for the convection-type and Cahn-Hilliard terms; Gray-Scott (1,0)"""
    from exponax.stepper.reaction._cahn_hilliard import CahnHilliardNonlinearFun
    from exponax.stepper.reaction._gray_scott import GrayScottNonlinearFun

    cases = []
    for D, N in ((1, 6), (2, 6)):
        for nm, C, mk in [
            ("conv/multi/cons", D, lambda L: NF.ConvectionNonlinearFun(D, N, derivative_operator=_do(L, D, N), dealiasing_fraction=2 / 3, scale=1.0, conservative=True)),
            ("conv/multi/noncons", D, lambda L: NF.ConvectionNonlinearFun(D, N, derivative_operator=_do(L, D, N), dealiasing_fraction=2 / 3, scale=1.0, conservative=False)),
            ("conv/single/cons", 1, lambda L: NF.ConvectionNonlinearFun(D, N, derivative_operator=_do(L, D, N), dealiasing_fraction=2 / 3, scale=1.0, single_channel=True, conservative=True)),
            ("gradnorm", 1, lambda L: NF.GradientNormNonlinearFun(D, N, derivative_operator=_do(L, D, N), dealiasing_fraction=2 / 3)),
            ("cahn-hilliard", 1, lambda L: CahnHilliardNonlinearFun(D, N, derivative_operator=_do(L, D, N), scale=1.0, dealiasing_fraction=1 / 2)),
        ] + ([("vorticity2d", 1, lambda L: NF.VorticityConvection2d(D, N, derivative_operator=_do(L, D, N), dealiasing_fraction=2 / 3))] if D == 2 else []):
            spec = (C,) + orc.spectrum_shape(D, N)
            uh = np.empty(spec, dtype=object)
            for i in np.ndindex(spec):
                uh[i] = Cx(ZERO, ZERO)
            for c in range(C):
                uh[(c,) + (0,) * D] = Cx(z3.Real(f"const{c}"), ZERO)
            ins = [In("L", (), lo=0.5, hi=2.0), In("uh", spec, "complex", sym_arr=uh)]
            enc = Encoded(lambda L, uh, mk=mk: mk(L)(uh), ins, tag="fc")
            zero = np.empty(spec, dtype=object)
            for i in np.ndindex(spec):
                zero[i] = Cx(ZERO, ZERO)
            enc.compare(ck, f"fixed/constant/{nm}/D{D}N{N}", 0, zero, [ins[0].s > 0], family="N(constant) = 0")
    # Gray-Scott: (u, v) = (1, 0)
    D, N = 1, 6
    spec = (2, N // 2 + 1)
    uh = np.empty(spec, dtype=object)
    for i in np.ndindex(spec):
        uh[i] = Cx(ZERO, ZERO)
    uh[0, 0] = Cx(orc.fl(N), ZERO)
    ins = [In("fk", (2,), lo=0.01, hi=0.1), In("uh", spec, "complex", sym_arr=uh)]
    enc = Encoded(lambda fk, uh: GrayScottNonlinearFun(D, N, dealiasing_fraction=1 / 2, feed_rate=fk[0], kill_rate=fk[1])(uh), ins, tag="gs")
    zero = np.empty(spec, dtype=object)
    for i in np.ndindex(spec):
        zero[i] = Cx(ZERO, ZERO)
    enc.compare(ck, "fixed/constant/gray-scott(1,0)", 0, zero, [], family="N(constant) = 0")


def _balancing(ck, order):
    """u* with lambda u* + N(u*) = 0 is a fixed point of ETDRK-p with exact
    phi-coefficients: one DC mode, z = lambda dt != 0, E = exp(z), Eh^2 = E."""
    from checks.c02 import phi_forms

    lam, dt, ustar = z3.Real("lam"), z3.Real("dt"), z3.Real("ustar")
    z = Cx(lam * dt, ZERO)
    E = Cx(z3.Real("E"), ZERO)
    Eh = Cx(z3.Real("Eh"), ZERO)
    forms = phi_forms(order, z, E, Eh)
    acc_of = {1: [0], 2: [0, 1], 3: [0, 1, 2, 3, 4], 4: [0, 0, 0, 1, 2, 3]}[order]
    names = leaf_names(order)
    syms = {"_exp_term": np.array([[E]], dtype=object)}
    if "_half_exp_term" in names:
        syms["_half_exp_term"] = np.array([[Eh]], dtype=object)
    for ci, cname in enumerate([n for n in names if n.startswith("_coef")]):
        syms[cname] = np.array([[sym.cscale(forms[acc_of[ci]], dt)]], dtype=object)
    nstar = Cx(-lam * ustar, ZERO)
    u_in = np.array([[Cx(ustar, ZERO)]], dtype=object)
    pre = [lam != 0, dt != 0, Eh.re * Eh.re == E.re]
    tag = f"fixed/balancing/order{order}"
    state = {"i": 0}

    def hook(name, ins_, e):
        i = state["i"]
        state["i"] += 1
        ck.add(f"{tag}/stage-arg/{i}", sym.equal_goal(ins_[0][0, 0], Cx(ustar, ZERO)), pre, family="balancing equilibrium: every stage equals u*")
        return [np.array([[nstar]], dtype=object)]

    from vlib.modular import CLS
    import equinox as eqx
    from vlib.jx2smt import uf

    ins = [In(n.strip("_"), (1, 1), "complex", sym_arr=syms[n]) for n in names] + [In("uh", (1, 1), "complex", sym_arr=u_in)]

    def f(*args):
        leaves, u = args[:-1], args[-1]
        e = CLS[order](0.1, jnp.zeros((1, 1), jnp.complex128), lambda v: uf("N", v))
        for n, v in zip(names, leaves):
            e = eqx.tree_at(lambda t, n=n: getattr(t, n), e, v)
        return e.step_fourier(u)

    enc = Encoded(f, ins, tag=f"bal{order}", uf_hook=hook)
    ck.add(f"{tag}/fixed-point", sym.equal_goal(enc.outs[0][0, 0], Cx(ustar, ZERO)), pre, family="balancing equilibrium is a fixed point (exact phi)")
    ck.add(f"{tag}/twin", sym.equal_goal(enc.outs[0][0, 0], Cx(2 * ustar, ZERO)), pre, family="fixed/twin", expect="sat")


def _balancing_lemmas(ck):
    """the real Fisher-KPP / Allen-Cahn steppers: Lambda(0) = r resp. c1, and
    N(u*) = -Lambda(0) u* at the constant equilibrium"""
    N, D = 6, 1
    spec = (1, N // 2 + 1)

    def const_state(v):
        uh = np.empty(spec, dtype=object)
        for i in np.ndindex(spec):
            uh[i] = Cx(ZERO, ZERO)
        uh[0, 0] = Cx(v, ZERO)
        return uh

    # Fisher: u* = 1  (DC coefficient N)
    ins = [In("L", (), lo=0.5, hi=2.0), In("dt", (), lo=0.01, hi=0.1), In("p", (2,), lo=0.1, hi=1.0), In("uh", spec, "complex", sym_arr=const_state(orc.fl(N)))]

    def f(L, dt, p, uh):
        s = S.reaction.FisherKPP(D, L, N, dt, diffusivity=p[0], reactivity=p[1], order=1)
        return s._integrator._nonlinear_fun(uh), s._integrator._exp_term

    enc = Encoded(f, ins, tag="fk")
    p, dt = ins[2].sym, ins[1].s
    ck.add("fixed/balancing/fisher/N(u*)", sym.equal_goal(enc.outs[0][0, 0], Cx(sym.rneg(sym.rmul(p[1], orc.fl(N))), ZERO)), [ins[0].s > 0], family="balancing lemma: N(u*) = -Lambda(0) u*")
    arg = enc.interp.calls["exp"][0]["arg"]
    ck.add("fixed/balancing/fisher/Lambda(0)", sym.equal_goal(sym.asc(arg[0, 0]), Cx(sym.rmul(dt, p[1]), ZERO)), [ins[0].s > 0], family="balancing lemma: Lambda(0)")
    # Allen-Cahn: u*^2 = -c1/c3
    us = z3.Real("ustar")
    ins = [In("L", (), lo=0.5, hi=2.0), In("dt", (), lo=0.01, hi=0.1), In("p", (3,), lo=0.1, hi=1.0), In("uh", spec, "complex", sym_arr=const_state(sym.rmul(orc.fl(N), us)))]

    def g(L, dt, p, uh):
        s = S.reaction.AllenCahn(D, L, N, dt, diffusivity=p[0], first_order_coefficient=p[1], third_order_coefficient=p[2], order=1)
        return s._integrator._nonlinear_fun(uh), s._integrator._exp_term

    enc = Encoded(g, ins, tag="ac")
    p, dt = ins[2].sym, ins[1].s
    pre = [ins[0].s > 0, p[2] * us * us == -p[1]]
    ck.add("fixed/balancing/allen-cahn/N(u*)", sym.equal_goal(enc.outs[0][0, 0], Cx(sym.rneg(sym.rmul(sym.rmul(p[1], us), orc.fl(N))), ZERO)), pre, family="balancing lemma: N(u*) = -Lambda(0) u*")
    arg = enc.interp.calls["exp"][0]["arg"]
    ck.add("fixed/balancing/allen-cahn/Lambda(0)", sym.equal_goal(sym.asc(arg[0, 0]), Cx(sym.rmul(dt, p[1]), ZERO)), [ins[0].s > 0], family="balancing lemma: Lambda(0)")
