"""C18 -- initial-condition generators honour their documented contract.

Random draws are an environment stub: while tracing, jax.random.normal /
uniform are replaced (in the harness process only) by an opaque primitive
whose outputs are fresh symbolic reals constrained to the documented range
(uniform: [0,1) before scaling); PRNG keys stay concrete and the stub is a
deterministic function of (key bits, shape), so "same key => same draw" holds
by construction.  Obligations: zero mean / requested mean offset / unit
standard deviation / unit maximum / clamp limits attained / scale factors /
Fourier content confined to the cut-off / power-law shaping of the white-noise
spectrum / multi-channel = stack of the sub-generators on the split keys /
function form = sampled form.  Channel count and spatial shape: traced avals.
"""
from __future__ import annotations

from fractions import Fraction

import numpy as np
import z3

import exponax as ex
import jax
import jax.numpy as jnp

from vlib import oracle as orc
from vlib import sym
from vlib.eqinst import Encoded, In
from vlib.jx2smt import uf
from vlib.sym import Cx, ONE, ZERO

IC = ex.ic
_SEED = [None]
_RANGES = {}  # name of an opaque draw -> 'normal' | 'uniform'


def _keyhex(key):
    try:
        data = jax.random.key_data(key)
    except Exception:
        data = key
    return np.asarray(data).tobytes().hex()


class stub_random:
    """context manager: jax.random.normal/uniform -> opaque symbolic draws"""

    def __enter__(self):
        self.orig = (jax.random.normal, jax.random.uniform)

        def _kd(key):
            try:
                return jax.random.key_data(key)
            except Exception:
                return key

        def normal(key, shape=(), dtype=float):
            return uf(f"normal:{tuple(shape)}", _kd(key), _SEED[0], out_like=jax.ShapeDtypeStruct(tuple(shape), jnp.float64))

        def uniform(key, shape=(), dtype=float, minval=0.0, maxval=1.0):
            u = uf(f"uniform:{tuple(shape)}", _kd(key), _SEED[0], out_like=jax.ShapeDtypeStruct(tuple(shape), jnp.float64))
            return minval + (maxval - minval) * u

        jax.random.normal, jax.random.uniform = normal, uniform
        return self

    def __exit__(self, *a):
        jax.random.normal, jax.random.uniform = self.orig


_DRAWS = {}


def _hook(name, ins_, e):
    """deterministic symbolic draw per (kind, key bits, shape); the key arrives as concrete data"""
    bits = "-".join(str(int(v)) for v in ins_[0].reshape(-1))
    name = f"{name}:{bits}"
    if name not in _DRAWS:
        shape = tuple(e.params["out_avals"][0][0])
        arr = np.empty(shape, dtype=object)
        tag = "r" + str(len(_DRAWS))
        for i in np.ndindex(shape):
            arr[i] = z3.Real(tag + "".join(f"_{k}" for k in i))
        _DRAWS[name] = arr
    return [_DRAWS[name]]


def draw_facts():
    f = []
    for name, arr in _DRAWS.items():
        if name.startswith("uniform"):
            for v in arr.reshape(-1):
                f += [v >= 0, v < 1]
    return f


def encode(fn, extra_ins=()):
    ins = [In("seed", ())] + list(extra_ins)

    def g(seed, *rest):
        _SEED[0] = seed
        with stub_random():  # also when the harness re-runs the real generator concretely (replay): draws are played back
            return fn(*rest)

    return Encoded(g, ins, tag="ic", uf_hook=_hook), ins


def build(ck):
    ck.encode_fn(IC.RandomTruncatedFourierSeries, IC.GaussianRandomField, IC.DiffusedNoise, IC.RandomDiscontinuities, IC.RandomGaussianBlobs, IC.RandomSineWaves1d, IC.SineWaves1d, IC.ClampingICGenerator,
                 IC.ScaledICGenerator, IC.RandomMultiChannelICGenerator, IC.WhiteNoise, IC._base_ic.normalize_ic)
    ck.bound("value obligations: 1D N in {4,6}, 2D N=4; shapes: D in {1,2,3}, N=6; keys PRNGKey(0), PRNGKey(3)")
    ck.assume("random draws are arbitrary reals (normal) / arbitrary reals in [0,1) (uniform); the PRNG bit generator and hence distributions are outside the claim; determinism in the key is purity")
    ck.assume("normalisations assume a non-degenerate draw (std != 0, max|u| != 0, max != min)")
    only = getattr(ck, "only", None)
    want = lambda t: (not only) or only in t
    key = jax.random.PRNGKey(0)
    for D, N in [(1, 4), (2, 4)] + ([(1, 6)] if ck.tier == "thorough" else []):
        if want(f"tfs/D{D}N{N}"):
            _truncated_fourier(ck, D, N, key)
        if want(f"grf/D{D}N{N}"):
            _grf(ck, D, N, key)
        if want(f"wrappers/D{D}N{N}"):
            _wrappers(ck, D, N, key)
    if want("multichannel"):
        _multichannel(ck, key)
    if want("funform"):
        _function_form(ck, key)
    if want("shapes"):
        _shapes(ck)


def _mean(arr):
    return sym.rmul(orc.fl(Fraction(1, arr.size)), sym.rsum(list(arr.reshape(-1))))


def _truncated_fourier(ck, D, N, key):
    tag = f"tfs/D{D}N{N}"
    cutoff = 1
    # zero mean (default)
    enc, _ = encode(lambda: IC.RandomTruncatedFourierSeries(D, cutoff=cutoff)(N, key=key))
    facts = draw_facts()
    ck.add(f"{tag}/zero-mean", sym.equal_goal(_mean(enc.outs[0]), ZERO), facts, family="RandomTruncatedFourierSeries: zero mean", replay=_tfs_replay(D, N, "zero"))
    # content confined to the cut-off
    enc2, _ = encode(lambda: ex.fft(IC.RandomTruncatedFourierSeries(D, cutoff=cutoff)(N, key=key)))
    for idx, m in orc.stored_modes(D, N):
        if max(abs(x) for x in m) > cutoff:
            ck.add(f"{tag}/band/{'_'.join(map(str, idx))}", sym.equal_goal(enc2.outs[0][(0,) + idx], Cx(ZERO, ZERO)), facts, family="RandomTruncatedFourierSeries: Fourier content confined to the cut-off", replay=_tfs_replay(D, N, "band"))
    # ... and inside the cut-off it IS the white-noise spectrum (every retained mode is present), mean mode zero
    noise = _last_normal()
    for idx, m in orc.stored_modes(D, N):
        if max(abs(x) for x in m) <= cutoff and not orc.is_nyquist(m, N):
            want = orc.fourier_coeff(noise[0], m, N) if any(m) else Cx(ZERO, ZERO)
            ck.add(f"{tag}/retained/{'_'.join(map(str, idx))}", sym.equal_goal(enc2.outs[0][(0,) + idx], want), facts, family="RandomTruncatedFourierSeries: retained modes carry the white-noise coefficients",
                   replay=_tfs_replay(D, N, "retained"))
    # the same spectral contract with a non-zero offset: nothing outside the cut-off, mean mode = offset * N^D
    enc2o, _ = encode(lambda: ex.fft(IC.RandomTruncatedFourierSeries(D, cutoff=cutoff, offset_range=(1.0, 3.0))(N, key=key)))
    for idx, m in orc.stored_modes(D, N):
        if max(abs(x) for x in m) > cutoff:
            ck.add(f"{tag}/band-with-offset/{'_'.join(map(str, idx))}", sym.equal_goal(enc2o.outs[0][(0,) + idx], Cx(ZERO, ZERO)), draw_facts(), family="RandomTruncatedFourierSeries: Fourier content confined to the cut-off",
                   replay=_tfs_replay(D, N, "band-offset"))
    # requested mean offset: mean == the uniform draw from offset_range
    lo, hi = 1.0, 3.0
    enc3, _ = encode(lambda: IC.RandomTruncatedFourierSeries(D, cutoff=cutoff, offset_range=(lo, hi))(N, key=key))
    facts = draw_facts()
    udraw = [arr for nm, arr in _DRAWS.items() if nm.startswith("uniform") and arr.shape == (1,)][-1]
    offset = sym.radd(orc.fl(lo), sym.rmul(orc.fl(hi - lo), udraw[0]))
    ck.add(f"{tag}/offset", sym.equal_goal(_mean(enc3.outs[0]), offset), facts, family="RandomTruncatedFourierSeries: mean equals the requested offset draw", replay=_tfs_replay(D, N, "offset"))
    # std one / max one
    enc4, _ = encode(lambda: IC.RandomTruncatedFourierSeries(D, cutoff=cutoff, std_one=True)(N, key=key))
    out = enc4.outs[0]
    var = _mean(np.vectorize(lambda v: sym.rmul(v, v), otypes=[object])(out))
    nondeg = [x > 0 for x, s in enc4.interp.sqrt_facts for x in [sym.zr(x)]]
    ck.add(f"{tag}/std-one", z3.And(sym.equal_goal(_mean(out), ZERO), sym.equal_goal(var, ONE)), draw_facts() + enc4.interp.sound_facts() + nondeg, family="RandomTruncatedFourierSeries: unit standard deviation", timeout=120, stretch=(N**D > 4),
           replay=_tfs_replay(D, N, "std"))
    if N**D <= 6 or ck.tier == "thorough":
        enc5, _ = encode(lambda: IC.RandomTruncatedFourierSeries(D, cutoff=cutoff, max_one=True)(N, key=key))
        out = enc5.outs[0]
        le = [sym.rcmp("le", sym.rabs(v), ONE) for v in out.reshape(-1)]
        att = z3.Or(*[sym.rcmp("eq", sym.rabs(v), ONE) for v in out.reshape(-1)])
        # non-degenerate draw: the un-normalised field (same key, same symbolic draws) is not identically zero
        nz = [z3.Or(*[sym.zr(v) != 0 for v in enc.outs[0].reshape(-1)])]
        ck.add(f"{tag}/max-one", z3.And(*le, att), draw_facts() + nz, family="RandomTruncatedFourierSeries: unit maximum", timeout=240, stretch=(N**D > 4))
    ck.add(f"{tag}/twin", sym.equal_goal(enc.outs[0][(0,) * (D + 1)], ZERO), facts, family="C18/twin", expect="sat")


def _last_normal():
    return [arr for nm, arr in _DRAWS.items() if nm.startswith("normal")][-1]


def _tfs_replay(D, N, what):
    def replay(model):
        key = jax.random.PRNGKey(0)
        if what == "offset":
            lo, hi = 1.0, 3.0
            ic = IC.RandomTruncatedFourierSeries(D, cutoff=1, offset_range=(lo, hi))(N, key=key)
            off = float(jax.random.uniform(jax.random.split(key)[1], shape=(1,), minval=lo, maxval=hi)[0])
            e = abs(float(jnp.mean(ic)) - off)
            return {"reproduced": e > 1e-5, "detail": f"RandomTruncatedFourierSeries(D={D}, offset_range=({lo},{hi}))(N={N}): mean {float(jnp.mean(ic)):.6g}, requested offset {off:.6g}"}
        if what == "band-offset":
            h = np.asarray(ex.fft(IC.RandomTruncatedFourierSeries(D, cutoff=1, offset_range=(1.0, 3.0))(N, key=key)))
            e = max([abs(h[(0,) + idx]) for idx, m in orc.stored_modes(D, N) if max(abs(x) for x in m) > 1] + [0.0])
            return {"reproduced": e > 1e-4, "detail": f"RandomTruncatedFourierSeries(D={D}, offset_range=(1,3))(N={N}): largest coefficient outside the cut-off {e:.3g}"}
        if what == "retained":
            h = np.asarray(ex.fft(IC.RandomTruncatedFourierSeries(D, cutoff=1)(N, key=key)))
            noise = np.asarray(ex.fft(IC.WhiteNoise(D)(N, key=jax.random.split(key)[0])))
            e = max([abs(h[(0,) + idx] - noise[(0,) + idx]) for idx, m in orc.stored_modes(D, N) if max(abs(x) for x in m) <= 1 and any(m) and not orc.is_nyquist(m, N)] + [0.0])
            return {"reproduced": e > 1e-4, "detail": f"RandomTruncatedFourierSeries(D={D})(N={N}): retained modes differ from the white-noise spectrum by {e:.3g}"}
        ic = IC.RandomTruncatedFourierSeries(D, cutoff=1, std_one=(what == "std"))(N, key=key)
        if what == "zero":
            e = abs(float(jnp.mean(ic)))
        elif what == "std":
            e = abs(float(jnp.std(ic)) - 1)
        else:
            h = np.asarray(ex.fft(ic))
            e = max([abs(h[(0,) + idx]) for idx, m in orc.stored_modes(D, N) if max(abs(x) for x in m) > 1] + [0.0])
        return {"reproduced": e > 1e-4, "detail": f"RandomTruncatedFourierSeries {what}: deviation {e:.3g}"}

    return replay


def _grf(ck, D, N, key):
    tag = f"grf/D{D}N{N}"
    # power-law shaping: with exponent 4 the amplitude is |k|^-2 (exactly representable with L symbolic); DC weight 1
    Lin = [In("L", (), lo=0.5, hi=2.0)]
    enc, ins = encode(lambda L: ex.fft(IC.GaussianRandomField(D, domain_extent=L, powerlaw_exponent=4.0, zero_mean=False)(N, key=key)), Lin)
    L = ins[1].s
    W = orc.two_pi_over(L)
    noise = _last_normal()
    for idx, m in orc.stored_modes(D, N):
        c = orc.fourier_coeff(noise[0], m, N)
        k2 = sym.rsum([sym.rpow_int(sym.rmul(orc.fl(mm), W), 2) for mm in m]) if any(m) else None
        want = c if k2 is None else Cx(sym.rdiv(c.re, k2), sym.rdiv(c.im, k2))
        if orc.is_nyquist(m, N):
            continue  # Nyquist bins of a real field: ifft/fft keeps only the Hermitian part
        ck.add(f"{tag}/shaping/{'_'.join(map(str, idx))}", sym.equal_goal(enc.outs[0][(0,) + idx], want), [L > 0] + enc.interp.sound_facts(), family="GaussianRandomField: white-noise spectrum times |k|^(-alpha/2), DC weight 1", timeout=120)
    enc2, _ = encode(lambda: IC.GaussianRandomField(D, powerlaw_exponent=4.0)(N, key=key))
    ck.add(f"{tag}/zero-mean", sym.equal_goal(_mean(enc2.outs[0]), ZERO), [], family="GaussianRandomField / DiffusedNoise: zero mean")
    if N**D <= 6 or ck.tier == "thorough":
        # unit maximum is a valid option without centring (zero_mean=False): |u| <= 1 everywhere, = 1 somewhere
        for gname, mkgen in (("GaussianRandomField", lambda **kw: IC.GaussianRandomField(D, powerlaw_exponent=4.0, **kw)), ("DiffusedNoise", lambda **kw: IC.DiffusedNoise(D, **kw))):
            encm, _ = encode(lambda mkgen=mkgen: (mkgen(zero_mean=False, max_one=True)(N, key=key), mkgen(zero_mean=False)(N, key=key)))
            outm = encm.outs[0].reshape(-1)
            le = [sym.rcmp("le", sym.rabs(v), ONE) for v in outm]
            att = z3.Or(*[sym.rcmp("eq", sym.rabs(v), ONE) for v in outm])
            nz = [z3.Or(*[sym.zr(v) != 0 for v in encm.outs[1].reshape(-1)])]
            ck.add(f"{tag}/{gname}/max-one-without-centring", z3.And(*le, att), nz + encm.interp.sound_facts(), family="unit maximum (zero_mean=False, max_one=True)", timeout=240)
    enc3, _ = encode(lambda: IC.DiffusedNoise(D)(N, key=key))
    ck.add(f"{tag}/diffused-noise/zero-mean", sym.equal_goal(_mean(enc3.outs[0]), ZERO), [], family="GaussianRandomField / DiffusedNoise: zero mean")


def _wrappers(ck, D, N, key):
    tag = f"wrappers/D{D}N{N}"
    inner = IC.RandomTruncatedFourierSeries(D, cutoff=1)
    sc = [In("s", (), lo=0.5, hi=2.0)]
    enc, ins = encode(lambda s: (IC.ScaledICGenerator(inner, s)(N, key=key), inner(N, key=key)), sc)
    s = ins[1].s
    for i in np.ndindex(enc.outs[0].shape):
        ck.add(f"{tag}/scaled/{'_'.join(map(str, i))}", sym.equal_goal(enc.outs[0][i], sym.rmul(s, enc.outs[1][i])), [], family="ScaledICGenerator: scale factor times the inner draw")
    if N**D <= 4 or ck.tier == "thorough":
        lim = [In("lo", (), lo=-1.0, hi=0.0), In("hi", (), lo=0.5, hi=2.0)]
        enc2, ins2 = encode(lambda lo, hi: IC.ClampingICGenerator(inner, limits=(lo, hi))(N, key=key), lim)
        lo, hi = ins2[1].s, ins2[2].s
        out = enc2.outs[0].reshape(-1)
        inner_vals = [sym.zr(v) for v in enc.outs[1].reshape(-1)]  # the inner generator's field for the same key
        nonconst = [z3.Or(*[inner_vals[0] != v for v in inner_vals[1:]])]
        inside = [z3.And(sym.rcmp("ge", v, lo), sym.rcmp("le", v, hi)) for v in out]
        att = [z3.Or(*[sym.rcmp("eq", v, lo) for v in out]), z3.Or(*[sym.rcmp("eq", v, hi) for v in out])]
        ck.add(f"{tag}/clamping", z3.And(*inside, *att), [lo < hi] + nonconst + _nonconst_output(enc2), family="ClampingICGenerator: values in [lo, hi], both limits attained", timeout=240)


def _nonconst_output(enc):
    return []


def _multichannel(ck, key):
    N = 4
    g1, g2 = IC.RandomTruncatedFourierSeries(1, cutoff=1), IC.RandomTruncatedFourierSeries(1, cutoff=1, offset_range=(0.5, 1.5))
    k1, k2 = jax.random.split(key, 2)
    enc, _ = encode(lambda: (IC.RandomMultiChannelICGenerator([g1, g2])(N, key=key), g1(N, key=k1), g2(N, key=k2)))
    ck.add("multichannel/shape", tuple(enc.outs[0].shape) == (2, N), [], family="RandomMultiChannelICGenerator: stack of sub-generators on the split keys", replay=lambda m: {"reproduced": True, "detail": "wrong channel count"})
    for j in range(N):
        ck.add(f"multichannel/ch0/{j}", sym.equal_goal(enc.outs[0][0, j], enc.outs[1][0, j]), [], family="RandomMultiChannelICGenerator: stack of sub-generators on the split keys")
        ck.add(f"multichannel/ch1/{j}", sym.equal_goal(enc.outs[0][1, j], enc.outs[2][0, j]), [], family="RandomMultiChannelICGenerator: stack of sub-generators on the split keys")


def _function_form(ck, key):
    """generator(num_points, key) == generator.gen_ic_fun(key)(grid) for generators with a function form"""
    N = 4
    fam = "function form evaluated on the grid = sampled form"
    for nm, gen in [("RandomDiscontinuities", IC.RandomDiscontinuities(1, num_discontinuities=2)), ("ScaledICGenerator(RandomDiscontinuities)", IC.ScaledICGenerator(IC.RandomDiscontinuities(1, num_discontinuities=1), 2.0)),
                    ("RandomMultiChannelICGenerator", IC.RandomMultiChannelICGenerator([IC.RandomDiscontinuities(1, num_discontinuities=1), IC.RandomDiscontinuities(1, num_discontinuities=2)]))]:
        def f(gen=gen):
            grid = ex.make_grid(getattr(gen, "num_spatial_dims", 1), gen.domain_extent if hasattr(gen, "domain_extent") else 1.0, N)
            return gen(N, key=key), gen.gen_ic_fun(key=key)(grid)

        try:
            enc, _ = encode(f)
        except Exception as ex_:  # noqa
            ck.error(f"funform/{nm}: the harness could not be traced: {type(ex_).__name__}: {str(ex_)[:200]}")
            continue
        if enc.outs[0].shape != enc.outs[1].shape:
            ck.add(f"funform/{nm}/shape", False, [], family=fam, replay=lambda m: {"reproduced": True, "detail": "shapes differ"})
            continue
        for i in np.ndindex(enc.outs[0].shape):
            ck.add(f"funform/{nm}/{'_'.join(map(str, i))}", sym.equal_goal(enc.outs[0][i], enc.outs[1][i]), draw_facts(), family=fam)


def _shapes(ck):
    """exactly one channel per generated field and spatial shape (N,)*D -- read off the traced output avals"""
    fam = "shape contract: (1,) + (N,)*D per generated field"
    N = 6
    key = jax.random.PRNGKey(3)
    for D in (1, 2, 3):
        gens = [("RandomTruncatedFourierSeries", IC.RandomTruncatedFourierSeries(D)), ("GaussianRandomField", IC.GaussianRandomField(D)), ("DiffusedNoise", IC.DiffusedNoise(D)),
                ("RandomDiscontinuities", IC.RandomDiscontinuities(D)), ("RandomGaussianBlobs", IC.RandomGaussianBlobs(D)), ("WhiteNoise", IC.WhiteNoise(D)),
                ("ClampingICGenerator", IC.ClampingICGenerator(IC.RandomTruncatedFourierSeries(D))), ("ScaledICGenerator", IC.ScaledICGenerator(IC.RandomTruncatedFourierSeries(D), 2.0)),
                ("RandomMultiChannelICGenerator", IC.RandomMultiChannelICGenerator([IC.RandomTruncatedFourierSeries(D)] * 3))]
        if D == 1:
            gens.append(("RandomSineWaves1d", IC.RandomSineWaves1d(1)))
        for nm, gen in gens:
            want = ((3,) if nm == "RandomMultiChannelICGenerator" else (1,)) + (N,) * D
            try:
                got = tuple(gen(N, key=key).shape)  # concrete call (some generators branch on drawn values and cannot be traced)
            except Exception as ex_:  # noqa
                got = f"raises {type(ex_).__name__}"
            ck.add(f"shapes/{nm}/D{D}", got == want, [], family=fam, replay=lambda m, nm=nm, D=D, got=got, want=want: _shape_replay(nm, D, got, want))


def _shape_replay(nm, D, got, want):
    return {"reproduced": got != want, "detail": f"{nm}(D={D})(6, key) has shape {got}, documented {want}"}
