#!/bin/bash
# Runs the pinned test-suite (guard off) and compares with BASELINE.json's stable_pass list.
OUT=${1:-/tmp/baseline_junit.xml}
cd /repo && /venv/bin/python -m pytest -ra -q -p no:cacheprovider --timeout=900 --continue-on-collection-errors --junitxml=$OUT > /tmp/baseline_out.log 2>&1
python3 - "$OUT" <<'PY'
import json, sys, xml.etree.ElementTree as ET
sp=set(json.load(open('/root/.vp/BASELINE.json'))['stable_pass'])
t=ET.parse(sys.argv[1]); ok=set()
for tc in t.iter('testcase'):
    name=tc.get('classname')+'::'+tc.get('name')
    if not any(c.tag in ('failure','error','skipped') for c in tc): ok.add(name)
missing=sorted(sp-ok)
print('stable_pass', len(sp), 'passed-now', len(ok), 'missing', len(missing))
for m in missing[:40]: print('  MISSING', m)
sys.exit(1 if missing else 0)
PY
