#!/bin/bash
# tools_refactor.sh <srcdir> <label> <check ids...>
# Behaviour-preserving refactoring produced by a sub-agent in <srcdir> (patch.diff, equiv.py, notes.txt):
#   - equiv.py must print the same digest on the unchanged tree and on the refactored tree (scratch worktrees under /tmp)
#   - the listed checks are run against the refactored tree (PYTHONPATH override; /repo is not touched) and must NOT alarm
SRC=$1; LABEL=$2; shift 2
DST=/verif/refactors/$LABEL
mkdir -p $DST
cp $SRC/patch.diff $SRC/equiv.py $DST/ 2>/dev/null
[ -f $SRC/notes.txt ] && cp $SRC/notes.txt $DST/agent_notes.txt
WT=/tmp/refwt_$LABEL; BASE=/tmp/refwt_base
git -C /repo worktree remove --force $WT 2>/dev/null
git -C /repo worktree add -q --detach $WT HEAD
[ -d $BASE ] || git -C /repo worktree add -q --detach $BASE HEAD
( cd $WT && git apply $DST/patch.diff ) || { echo "PATCH DOES NOT APPLY"; git -C /repo worktree remove --force $WT; exit 2; }
( cd $BASE && PYTHONPATH=$BASE JAX_PLATFORMS=cpu timeout 900 /venv/bin/python $DST/equiv.py > $DST/equiv_unchanged.out 2>$DST/equiv_unchanged.err )
( cd $WT && PYTHONPATH=$WT JAX_PLATFORMS=cpu timeout 900 /venv/bin/python $DST/equiv.py > $DST/equiv_refactored.out 2>$DST/equiv_refactored.err )
if cmp -s $DST/equiv_unchanged.out $DST/equiv_refactored.out && [ -s $DST/equiv_unchanged.out ]; then EQ=identical; else EQ=DIFFERENT; fi
RES=""
for c in "$@"; do
  ( cd /verif && PYTHONPATH=$WT VERIF_EVIDENCE_DIR=$DST/evidence_refactored ./check $c --tier quick > $DST/check_$c.log 2>&1 ); e=$?
  v=$(grep -c '^VIOLATION' $DST/check_$c.log); h=$(grep -c '^HARNESS-ERROR' $DST/check_$c.log); i=$(grep -c '^INCONCLUSIVE' $DST/check_$c.log)
  RES="$RES $c:exit=$e,viol=$v,herr=$h,inconcl=$i"
done
git -C /repo worktree remove --force $WT
rm -rf $DST/evidence_refactored
echo "REFACTOR $LABEL equiv=$EQ$RES"
