#!/bin/bash
while read -r SRC LABEL CHECKS; do
  [ -z "$SRC" ] && continue
  /verif/tools_refactor.sh $SRC $LABEL $CHECKS 2>&1 | grep "REFACTOR\|PATCH"
done < "$1"
