#!/usr/bin/env python3
"""Regenerates MANIFEST.json from claims/<ID>.json (one file per claimed property)."""
import glob
import json
import os

HERE = os.path.dirname(os.path.abspath(__file__))

NOT_APPLICABLE = {
    "C19": "floating-point overflow/precision faithfulness of XLA's exp/complex-division kernels for |lambda dt| up to 1e15 and f32-vs-f64 closeness: needs a bit-level model of XLA CPU kernels and exp in QF_FP, which is not available offline; real-arithmetic fragments are discharged under C02/C03 instead (DESIGN.md section 9)",
}


def main():
    claimed = {}
    for f in sorted(glob.glob(os.path.join(HERE, "claims", "C*.json"))):
        claimed[os.path.basename(f)[:-5]] = json.load(open(f))
    checks = []
    for pid, c in sorted(claimed.items()):
        checks.append(
            {
                "property_id": pid,
                "quick_cmd": f"./check {pid} --tier quick",
                "thorough_cmd": f"./check {pid} --tier thorough",
                "evidence_file": f"evidence/{pid}.json",
                "replay_cmd_template": f"./check {pid} --replay {{path}}",
                "engine": c.get("engine", "jx2smt"),
                "level_claimed": {"category": c.get("category", "model_checking"), "text": c["text"], "design_ref": "DESIGN.md section " + c["ref"]},
                "level_note": c["note"],
                "technique": c["technique"],
            }
        )
    props = [json.loads(l)["id"] for l in open(os.path.join(HERE, "properties.jsonl"))]
    na = dict(NOT_APPLICABLE)
    for p in props:
        if p not in claimed and p not in na:
            na[p] = "check not built yet in this revision (planned, see DESIGN.md section 5)"
    m = {
        "version": 1,
        "setup_cmd": "./setup.sh",
        "hooks": {
            "guard": "CEYRON_EXPONAX_VERIF",
            "enable": "no source hooks are needed: checks trace the unmodified /repo sources (the variable is exported by ./check for form only)",
            "baseline_off_cmd": "cd /repo && /venv/bin/python -m pytest -ra -q -p no:cacheprovider --timeout=900 --continue-on-collection-errors",
            "source_commits": [],
            "add_only": True,
        },
        "engines": [
            {"name": "jx2smt", "path": "vlib/jx2smt.py", "serves_properties": sorted(claimed), "kind_free_text": "symbolic execution of jax.make_jaxpr of the real exponax code over z3 reals (QF_NRA), explicit DFT with exact twiddles, Ackermannised transcendentals, worker-pool discharge, model replay on the real API"},
            {"name": "pyk2smt", "path": "vlib/pyk.py", "serves_properties": [p for p in ("C03", "C04", "C13", "C17") if p in claimed], "kind_free_text": "scalar integer/float kernels extracted from the Python AST to QF_BVFP / LIA with symbolic N (cvc5, z3)"},
            {"name": "crosshair-guards", "path": "vlib/guards.py", "serves_properties": [p for p in ("C20", "C18") if p in claimed], "kind_free_text": "CrossHair symbolic execution of the real guard functions (f-strings blanked)"},
        ],
        "checks": checks,
        "not_applicable": [{"property_id": k, "reason": v} for k, v in sorted(na.items())],
        "notes": "All checks: cwd=/verif, `./check <ID> --tier quick|thorough`; exit 0 ok, 1 violation (VIOLATION line + replay file), 3 harness error (never a violation). Known findings: known_findings.txt.",
    }
    with open(os.path.join(HERE, "MANIFEST.json"), "w") as f:
        json.dump(m, f, indent=1)


if __name__ == "__main__":
    main()
