#!/usr/bin/env python3
"""Regenerates MANIFEST.json from the table below (kept in one place so the
manifest stays valid while checks are added)."""
import json

CLAIMED = {
    "C01": dict(
        text="Bounded symbolic checking: the jaxpr of the real constructors and step functions is executed over z3 reals with L, dt, every coefficient and the whole spectrum symbolic; "
        "unsat per stored mode means the exp argument equals dt*documented symbol and the step multiplies by it, for all real parameter values at the listed grid sizes; "
        "semigroup/inverse from sound exp instances; physical-space call equals an independent inverse DFT on Nyquist-free states; wave stepper equals the d'Alembert rotation.",
        note="Real arithmetic instead of IEEE floats; exp/sqrt Ackermannised with sound facts only; grid sizes bounded (listed in evidence); trusted: JAX tracer, the interpreter's primitive rules (validated against the real function at random points every run), z3.",
        technique="symbolic execution of the jaxpr (make_jaxpr of the real code) to QF_NRA, z3 per-component unsat/sat with replay",
        ref="5/C01",
    ),
}

CLAIMED["C02"] = dict(
    text="Bounded symbolic checking of the real ETDRK1-4 constructors and step functions: with dt and a complex symbol per mode symbolic, exp and the contour divisions Ackermannised (staged), "
    "every quotient the code forms has the Cox-Matthews numerator/denominator, every contour point is r*rho_j + lambda*dt, every stored coefficient is dt times the COMPLEX mean; "
    "the integrands equal the phi-function combinations (algebra); step_fourier with an opaque nonlinear term and free coefficient arrays equals the Cox-Matthews stages (staged congruence).",
    note="Quadrature error of the M-point mean vs the exact phi function (and hence the convergence order) is outside the claim; real arithmetic; M in {8,16,32}; trusted: tracer, interpreter, z3; replay compares the real constructor with 50-digit mpmath phi-functions.",
    technique="symbolic execution of the constructor/step jaxprs with staged Ackermannisation of exp, division and the opaque nonlinear term; z3 QF_NRA",
    ref="5/C02",
)

CLAIMED["C03"] = dict(
    text="Bounded symbolic checking: every built-in nonlinear-function class is traced with L, scales/coefficients and a full Hermitian spectrum symbolic and compared, per stored mode and channel, with the documented operator "
    "evaluated by exact convolution over integer wavenumbers on the retained band (zero outside) - a polynomial identity decided by z3; odd and even N via exact twiddles (radicals / minimal polynomial of cos(2pi/N)). "
    "The float cut-off decision of the dealiasing mask is decided against the exact rational rule for ALL N<=4096 in QF_BVFP (f32 and f64), from the AST of the current source.",
    note="E1 grid sizes bounded (listed in evidence); real arithmetic; input is the rfft of a real field; E2 models JAX's rfftfreq/weak-type comparison semantics (validated by a sweep each run); trusted: tracer, interpreter, z3, cvc5.",
    technique="symbolic execution of jaxprs to QF_NRA (z3) + AST-extracted scalar kernels to QF_BVFP with symbolic N (cvc5)",
    ref="5/C03",
)

CLAIMED["C04"] = dict(
    text="Bounded symbolic checking of the real fft/ifft/make_grid/get_fourier_coefficients/scaling arrays: round trip for symbolic states; grid entries j*L/N with L symbolic; for EVERY wavenumber vector of each listed grid a field "
    "A cos(theta)-B sin(theta) with symbolic amplitude/phase lands, through the real code, exactly in the stored mode(s) the documented layout and the real wavenumber array name, with the documented scaling for all three modes and both indexings. "
    "For ALL N<=4096: wavenumber kernels exact in f32 and f64 (QF_BVFP from the AST), oddball cut-off; mode blocks map wavenumber to wavenumber for all grid sizes (real get_modes_slices run on parity-split symbolic ints, LIA).",
    note="E1 grids bounded; real arithmetic; get_fourier_coefficients with round=None; low-pass mask membership per N is concrete enumeration (stated as such); trusted: tracer, interpreter, z3, cvc5, the JAX rfftfreq model (validated by sweep).",
    technique="symbolic execution of jaxprs to QF_NRA/LRA (z3) + AST kernels to QF_BVFP with symbolic N (cvc5) + LIA on symbolic-int execution of get_modes_slices",
    ref="5/C04",
)

NOT_APPLICABLE = {
    "C19": "floating-point overflow/precision faithfulness of XLA's exp/complex-division kernels for |lambda dt| up to 1e15 and f32-vs-f64 closeness: needs a bit-level model of XLA CPU kernels and exp in QF_FP, which is not available offline; real-arithmetic fragments are discharged under C02/C03 instead (DESIGN.md section 9)",
}


def main():
    checks = []
    for pid, c in sorted(CLAIMED.items()):
        checks.append(
            {
                "property_id": pid,
                "quick_cmd": f"./check {pid} --tier quick",
                "thorough_cmd": f"./check {pid} --tier thorough",
                "evidence_file": f"evidence/{pid}.json",
                "replay_cmd_template": f"./check {pid} --replay {{path}}",
                "engine": c.get("engine", "jx2smt"),
                "level_claimed": {"category": "model_checking", "text": c["text"], "design_ref": "DESIGN.md section " + c["ref"]},
                "level_note": c["note"],
                "technique": c["technique"],
            }
        )
    import os
    here = os.path.dirname(os.path.abspath(__file__))
    props = [json.loads(l)["id"] for l in open(os.path.join(here, "properties.jsonl"))]
    na = dict(NOT_APPLICABLE)
    for p in props:
        if p not in CLAIMED and p not in na:
            na[p] = "check not built yet in this revision (planned, see DESIGN.md section 5)"
    m = {
        "version": 1,
        "setup_cmd": "./setup.sh",
        "hooks": {
            "guard": "CEYRON_EXPONAX_VERIF",
            "enable": "no source hooks are needed: checks trace the unmodified /repo sources (the variable is exported by ./check for form only)",
            "baseline_off_cmd": "cd /repo && /venv/bin/python -m pytest -ra -q -p no:cacheprovider --timeout=900 --continue-on-collection-errors",
            "source_commits": [],
            "add_only": True,
        },
        "engines": [
            {"name": "jx2smt", "path": "vlib/jx2smt.py", "serves_properties": sorted(CLAIMED), "kind_free_text": "symbolic execution of jax.make_jaxpr of the real exponax code over z3 reals (QF_NRA), explicit DFT with exact twiddles, Ackermannised transcendentals, worker-pool discharge, model replay on the real API"},
            {"name": "pyk2smt", "path": "vlib/pyk.py", "serves_properties": [], "kind_free_text": "scalar integer/float kernels extracted from the Python AST to QF_BVFP / LIA with symbolic N"},
            {"name": "crosshair-guards", "path": "vlib/guards.py", "serves_properties": [], "kind_free_text": "CrossHair symbolic execution of the real guard functions (f-strings blanked)"},
        ],
        "checks": checks,
        "not_applicable": [{"property_id": k, "reason": v} for k, v in sorted(na.items())],
        "notes": "All checks: cwd=/verif, `./check <ID> --tier quick|thorough`; exit 0 ok, 1 violation (VIOLATION line + replay file), 3 harness error (never a violation). Known findings: known_findings.txt.",
    }
    with open(os.path.join(here, "MANIFEST.json"), "w") as f:
        json.dump(m, f, indent=1)


if __name__ == "__main__":
    main()
