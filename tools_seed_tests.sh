#!/bin/bash
# Runs the unedited test-suite with each seeded patch applied (scratch worktree), for seeds lacking a passing log.
# usage: tools_seed_tests.sh [label]   (no label: all seeds, three at a time)
one() {
  d=/verif/seeded/$1; L=$1
  if grep -q "testsuite exit=0" $d/testsuite_patched.log 2>/dev/null; then echo "$L already ok"; return; fi
  WT=/tmp/seedwt_$L
  git -C /repo worktree remove --force $WT 2>/dev/null
  git -C /repo worktree add -q $WT HEAD && cd $WT && git apply $d/patch.diff || { echo "$L: patch does not apply"; return; }
  /venv/bin/python -m pytest -q -p no:cacheprovider --timeout=900 --deselect tests/test_nonlinear_funs.py::TestGradientNormAdditional::test_2d > $d/testsuite_patched.log 2>&1; echo "testsuite exit=$?" >> $d/testsuite_patched.log
  echo "$L: $(tail -2 $d/testsuite_patched.log | tr '\n' ' ' | cut -c1-160)"
  cd /; git -C /repo worktree remove --force $WT
}
if [ -n "$1" ]; then one "$1"; else ls /verif/seeded | xargs -P 3 -I{} $0 {}; fi
