#!/bin/bash
# Runs every claimed check of one tier in sequence; prints one status line per property.
TIER=${1:-quick}
cd "$(dirname "$0")"
rc=0
for id in $(python3 -c "import json; print(' '.join(c['property_id'] for c in json.load(open('MANIFEST.json'))['checks']))"); do
  s=$(date +%s)
  ./check $id --tier $TIER > /tmp/verif_${id}_${TIER}.log 2>&1
  e=$?
  echo "$id exit=$e $(( $(date +%s) - s ))s $(grep -c '^VIOLATION' /tmp/verif_${id}_${TIER}.log) violations; $(tail -1 /tmp/verif_${id}_${TIER}.log | cut -c1-200)"
  [ $e -ne 0 ] && rc=1
done
exit $rc
