"""Parallel SMT query farm.  Imports only z3 (never jax) so that worker
processes start fast.  Each query is SMT-LIB2 text (declarations + assertions);
the worker answers sat/unsat/unknown, with a model for sat.

A worker that exceeds the hard deadline is killed and restarted; the query is
reported as ``timeout`` (inconclusive), never as discharged.
"""
from __future__ import annotations

import multiprocessing as mp
import os
import time


def _model_to_dict(m):
    import z3

    out = {}
    for d in m.decls():
        if d.arity() != 0:
            continue
        v = m[d]
        try:
            if z3.is_rational_value(v):
                out[d.name()] = [str(v.numerator_as_long()), str(v.denominator_as_long())]
            elif z3.is_algebraic_value(v):
                s = v.approx(40)
                out[d.name()] = [str(s.numerator_as_long()), str(s.denominator_as_long())]
            elif z3.is_true(v) or z3.is_false(v):
                out[d.name()] = bool(z3.is_true(v))
            elif z3.is_int_value(v):
                out[d.name()] = [str(v.as_long()), "1"]
            else:
                out[d.name()] = str(v)
        except Exception as ex:  # pragma: no cover
            out[d.name()] = "?" + str(ex)
    return out


def solve_text(text, timeout_ms, goal_index=None, tactic=None):
    """runs in the worker"""
    import z3

    t0 = time.time()
    ctx = z3.Context()
    try:
        if tactic:
            s = z3.Tactic(tactic, ctx=ctx).solver()
        else:
            s = z3.Solver(ctx=ctx)
        s.set("timeout", int(timeout_ms))
        s.from_string(text)
        if goal_index is not None:
            # trivial = the negated goal alone simplifies to false
            neg = z3.simplify(s.assertions()[goal_index])
            if z3.is_false(neg):
                return {"status": "unsat", "trivial": True, "t": time.time() - t0}
        r = s.check()
        res = {"status": str(r), "trivial": False, "t": time.time() - t0}
        if str(r) == "sat":
            res["model"] = _model_to_dict(s.model())
        elif str(r) == "unknown":
            res["reason"] = s.reason_unknown()
        return res
    except z3.Z3Exception as ex:
        return {"status": "error", "reason": str(ex), "trivial": False, "t": time.time() - t0}


def _worker(inq, outq):
    import threading

    parent = os.getppid()

    def _watch():  # never outlive the check process (z3 ignores its own timeout inside some nlsat calls)
        while True:
            time.sleep(5)
            if os.getppid() != parent:
                os._exit(1)

    threading.Thread(target=_watch, daemon=True).start()
    while True:
        job = inq.get()
        if job is None:
            return
        qid, text, timeout_ms, goal_index, tactic = job
        try:
            res = solve_text(text, timeout_ms, goal_index, tactic)
        except BaseException as ex:  # noqa
            res = {"status": "error", "reason": repr(ex), "trivial": False, "t": 0.0}
        outq.put((qid, res))


MAX_UNKNOWN = int(os.environ.get("VERIF_MAX_UNKNOWN", "64"))
MEM_CAP_MB = int(os.environ.get("VERIF_WORKER_MEM_MB", "6000"))


def _rss_mb(pid):
    try:
        with open(f"/proc/{pid}/statm") as f:
            return int(f.read().split()[1]) * (os.sysconf("SC_PAGE_SIZE") / 1048576.0)
    except Exception:
        return 0.0


class Farm:
    def __init__(self, workers=None):
        self.n = workers or min(16, os.cpu_count() or 4)
        self.ctx = mp.get_context("spawn")
        self.procs = []
        self.cpu = 0.0

    def _spawn(self):
        inq, outq = self.ctx.Queue(), self.ctx.Queue()
        p = self.ctx.Process(target=_worker, args=(inq, outq), daemon=True)
        p.start()
        return {"p": p, "in": inq, "out": outq, "job": None, "t0": None}

    def run(self, queries, progress=None, max_sat=None):
        """queries: list of dict(id, text, timeout_s, goal_index?, expect?) -> dict id -> result.
        max_sat: once that many queries that were expected unsat came back sat, the queries not yet started are
        reported as 'skipped' (inconclusive): a broken tree need not be explored exhaustively."""
        results = {}
        nsat = 0
        nunk = 0
        expect = {q["id"]: q.get("expect", "unsat") for q in queries}
        pending = list(queries)[::-1]
        n = min(self.n, max(1, len(pending)))
        while len(self.procs) < n:
            self.procs.append(self._spawn())
        active = 0
        done = 0
        total = len(pending)
        while pending or active:
            for w in self.procs:
                if w["job"] is None and pending:
                    q = pending.pop()
                    w["job"] = q
                    w["t0"] = time.time()
                    w["in"].put((q["id"], q["text"], int(q.get("timeout_s", 60) * 1000), q.get("goal_index"), q.get("tactic")))
                    active += 1
            time.sleep(0.002)
            for k, w in enumerate(self.procs):
                if w["job"] is None:
                    continue
                try:
                    qid, res = w["out"].get_nowait()
                except Exception:
                    qid = None
                if qid is not None:
                    results[qid] = res
                    if res.get("status") in ("unknown", "timeout"):
                        nunk += 1
                    if nunk >= MAX_UNKNOWN and pending:
                        # a tree on which this many queries time out is not going to be decided by running the rest as well
                        for q in pending:
                            results[q["id"]] = {"status": "skipped", "trivial": False, "t": 0.0, "reason": f"not started: {nunk} queries already timed out"}
                        done += len(pending)
                        pending = []
                    if res.get("status") == "sat" and expect.get(qid) == "unsat":
                        nsat += 1
                        if max_sat is not None and nsat >= max_sat and pending:
                            for q in pending:
                                results[q["id"]] = {"status": "skipped", "trivial": False, "t": 0.0, "reason": f"not started: {nsat} counterexamples already found"}
                            done += len(pending)
                            pending = []
                    self.cpu += res.get("t", 0.0)
                    w["job"] = None
                    active -= 1
                    done += 1
                    if progress:
                        progress(done, total)
                    continue
                hard = w["job"].get("timeout_s", 60) * 1.5 + 20
                over = False
                if time.time() - w.get("tmem", 0) > 1.0:  # memory watchdog: nlsat can grow without bound on a hard query
                    w["tmem"] = time.time()
                    over = _rss_mb(w["p"].pid) > MEM_CAP_MB
                if over or time.time() - w["t0"] > hard or not w["p"].is_alive():
                    results[w["job"]["id"]] = {"status": "timeout", "trivial": False, "t": time.time() - w["t0"], "reason": f"memory cap {MEM_CAP_MB} MB" if over else "hard deadline / worker died"}
                    nunk += 1
                    self.cpu += time.time() - w["t0"]
                    try:
                        w["p"].kill()
                    except Exception:
                        pass
                    self.procs[k] = self._spawn()
                    active -= 1
                    done += 1
        return results

    def close(self):
        for w in self.procs:
            try:
                w["in"].put(None)
            except Exception:
                pass
        for w in self.procs:
            w["p"].join(timeout=2)
            if w["p"].is_alive():
                w["p"].kill()
        self.procs = []
