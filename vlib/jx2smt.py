"""E1: symbolic execution of the jaxpr of the real exponax code over z3 Reals.

``Interp().run(closed_jaxpr, *args)`` evaluates a ``jax.make_jaxpr`` result on
numpy object arrays of ``vlib.sym`` scalars.  Structural primitives are
delegated to numpy on the object arrays; arithmetic maps element-wise over the
scalar domain; ``fft`` is an explicit DFT with exact twiddles; transcendental
functions of symbolic arguments are Ackermannised (fresh result variables,
recorded in ``Interp.calls``; the harness states which sound facts it uses).
Any primitive whose inputs are all concrete and that has no exact rule is
executed by binding the real JAX primitive.
"""
from __future__ import annotations

import os

import itertools
import math
from fractions import Fraction

import numpy as np
import z3

import jax
import jax.numpy as jnp
from jax.extend import core as jcore

from . import sym, twiddle
from .sym import CTX, Cx, Fl, ONE, ZERO

# --------------------------------------------------------------------------
# opaque function primitive  uf[name]
# --------------------------------------------------------------------------

uf_p = jcore.Primitive("uf")
uf_p.multiple_results = True


def _uf_abstract(*args, name, out_avals):
    return [jax.core.ShapedArray(s, d) for (s, d) in out_avals]


uf_p.def_abstract_eval(_uf_abstract)


def _register_sqrt(x, s):
    """the defining fact of an Ackermannised square root travels with its symbol: the harness adds it to every query
    in which the symbol occurs (an obligation that forgets `sound_facts()` would otherwise see an unconstrained value)"""
    try:
        if z3.is_expr(s) and z3.is_const(s):
            X = sym.zr(x)
            sym.CTX.defs[s.decl().name()] = z3.Implies(X >= 0, z3.And(s >= 0, s * s == X))
    except Exception:
        pass


UF_PLAYBACK = []  # replay only: the values the k-th eager call of an opaque function returns (set by Encoded.real_outputs)


def _uf_impl(*args, name, out_avals):
    if UF_PLAYBACK:
        vals = UF_PLAYBACK.pop(0)
        return [jnp.asarray(np.asarray(v).reshape(s), dtype=d) for v, (s, d) in zip(vals, out_avals)]
    raise RuntimeError("uf primitive has no concrete implementation; it only exists in traced harnesses")


uf_p.def_impl(_uf_impl)


def uf(name, *args, out_like=None):
    """Opaque, shape-preserving function for use inside traced harnesses."""
    if out_like is None:
        out_like = [args[0]]
    elif not isinstance(out_like, (list, tuple)):
        out_like = [out_like]
    avals = tuple((tuple(o.shape), np.dtype(o.dtype)) for o in out_like)
    outs = uf_p.bind(*args, name=name, out_avals=avals)
    return outs[0] if len(outs) == 1 else tuple(outs)


# --------------------------------------------------------------------------
# array helpers
# --------------------------------------------------------------------------


def oarr(shape, fill=None):
    a = np.empty(shape, dtype=object)
    if fill is not None:
        for i in np.ndindex(a.shape):
            a[i] = fill
    return a


def to_obj(a, inexact=False):
    """native array / scalar -> object array of sym scalars"""
    a = np.asarray(a)
    out = np.empty(a.shape, dtype=object)
    flat = a.reshape(-1)
    of = out.reshape(-1) if out.size else out
    for i in range(flat.size):
        of[i] = sym.from_native(flat[i].item() if hasattr(flat[i], "item") else flat[i], inexact=inexact)
    return out


def to_native(a, dtype):
    dt = np.dtype(dtype)
    out = np.empty(a.shape, dtype=dt)
    for i in np.ndindex(a.shape):
        v = a[i]
        if isinstance(v, Cx):
            out[i] = complex(v.re.nat, v.im.nat)
        elif isinstance(v, Fl):
            out[i] = v.nat
        else:
            out[i] = v
    return out


class Opaque:
    """a concrete native value the interpreter does not look into (PRNG keys)"""

    __slots__ = ("value",)

    def __init__(self, value):
        self.value = value


def _is_key_dtype(dt):
    try:
        return jax.dtypes.issubdtype(dt, jax.dtypes.prng_key)
    except Exception:
        return False


def _native_in(a, aval):
    if _is_key_dtype(aval.dtype):
        flat = [v.value for v in a.reshape(-1)]
        return jnp.stack(flat).reshape(a.shape) if a.shape else flat[0]
    return jnp.asarray(to_native(a, aval.dtype))


def _native_out(r, inexact):
    if _is_key_dtype(r.dtype):
        out = np.empty(r.shape, dtype=object)
        for i in np.ndindex(r.shape):
            out[i] = Opaque(r[i])
        return out
    return to_obj(np.asarray(r), inexact=inexact)


def all_conc(a):
    return all(isinstance(v, Opaque) or sym.is_conc(v) for v in a.reshape(-1)) if a.size else True


def emap(f, *arrs):
    arrs = np.broadcast_arrays(*arrs)
    out = np.empty(arrs[0].shape, dtype=object)
    if out.ndim == 0:
        out[()] = f(*(a[()] for a in arrs))
        return out
    flats = [a.reshape(-1) for a in arrs]
    of = np.empty(flats[0].size, dtype=object)
    for i in range(of.size):
        of[i] = f(*(fl[i] for fl in flats))
    return of.reshape(out.shape)


def symarray(prefix, shape, complex_=False):
    """fresh symbolic array; names prefix_i_j / prefix_i_j_re/_im"""
    out = np.empty(shape, dtype=object)
    for i in np.ndindex(tuple(shape)):
        nm = prefix + "".join(f"_{k}" for k in i)
        out[i] = Cx(z3.Real(nm + "_re"), z3.Real(nm + "_im")) if complex_ else z3.Real(nm)
    return out


def scalar(v):
    a = np.empty((), dtype=object)
    a[()] = v
    return a


# --------------------------------------------------------------------------
# DFT
# --------------------------------------------------------------------------


def _dft_lines(arr, axis, inverse, dt):
    """complex DFT (unnormalised) along ``axis`` of an object array of Cx."""
    arr = np.moveaxis(arr, axis, -1)
    n = arr.shape[-1]
    out = np.empty(arr.shape, dtype=object)
    tw = [twiddle.cs(j, n) for j in range(n)]
    for idx in np.ndindex(arr.shape[:-1]):
        vec = [sym.asc(v) for v in arr[idx]]
        for k in range(n):
            res, ims = [], []
            for j in range(n):
                c, s = tw[(j * k) % n]
                if not inverse:
                    s = sym.rneg(s)
                x = vec[j]
                res.append(sym.rsub(sym.rmul(x.re, c, dt), sym.rmul(x.im, s, dt), dt))
                ims.append(sym.radd(sym.rmul(x.re, s, dt), sym.rmul(x.im, c, dt), dt))
            out[idx + (k,)] = Cx(sym.rsum(res, dt), sym.rsum(ims, dt))
    return np.moveaxis(out, -1, axis)


def _rfft_last(arr, dt):
    n = arr.shape[-1]
    m = n // 2 + 1
    out = np.empty(arr.shape[:-1] + (m,), dtype=object)
    tw = [twiddle.cs(j, n) for j in range(n)]
    for idx in np.ndindex(arr.shape[:-1]):
        vec = arr[idx]
        for k in range(m):
            res, ims = [], []
            for j in range(n):
                c, s = tw[(j * k) % n]
                res.append(sym.rmul(vec[j], c, dt))
                ims.append(sym.rneg(sym.rmul(vec[j], s, dt)))
            out[idx + (k,)] = Cx(sym.rsum(res, dt), sym.rsum(ims, dt))
    return out


def _irfft_last(arr, n, dt):
    """half-complex -> real (unnormalised), pocketfft convention: imaginary
    parts of the DC and (even n) Nyquist bins are ignored."""
    m = n // 2 + 1
    assert arr.shape[-1] == m, (arr.shape, n)
    out = np.empty(arr.shape[:-1] + (n,), dtype=object)
    tw = [twiddle.cs(j, n) for j in range(n)]
    two = Fl(2.0, Fraction(2))
    for idx in np.ndindex(arr.shape[:-1]):
        vec = [sym.asc(v) for v in arr[idx]]
        for j in range(n):
            terms = [vec[0].re]
            for k in range(1, m):
                c, s = tw[(j * k) % n]
                if n % 2 == 0 and k == n // 2:
                    terms.append(sym.rmul(vec[k].re, c, dt))
                else:
                    t = sym.rsub(sym.rmul(vec[k].re, c, dt), sym.rmul(vec[k].im, s, dt), dt)
                    terms.append(sym.rmul(two, t, dt))
            out[idx + (j,)] = sym.rsum(terms, dt)
    return out


def fft_rule(a, fft_type, lens, dt):
    nd = len(lens)
    try:
        kind = {0: "fft", 1: "ifft", 2: "rfft", 3: "irfft"}[int(fft_type)]
    except (TypeError, ValueError):
        name = str(fft_type).split(".")[-1].upper()
        kind = "irfft" if "IRFFT" in name else "rfft" if "RFFT" in name else "ifft" if "IFFT" in name else "fft"
    rdt = np.dtype("float64") if np.dtype(dt) in (np.dtype("complex128"), np.dtype("float64")) else np.dtype("float32")
    if kind == "rfft":
        out = _rfft_last(a, rdt)
        for ax in range(2, nd + 1):
            out = _dft_lines(out, -ax, False, rdt)
        return out
    if kind == "irfft":
        out = a
        total = 1
        for ax in range(nd, 1, -1):
            out = _dft_lines(out, -ax, True, rdt)
            total *= out.shape[-ax]
        out = _irfft_last(out, lens[-1], rdt)
        total *= lens[-1]
        inv = Fl(1.0 / total, Fraction(1, total))
        return emap(lambda v: sym.rmul(v, inv, rdt), out)
    inverse = kind == "ifft"
    out = a
    total = 1
    for ax in range(1, nd + 1):
        out = _dft_lines(out, -ax, inverse, rdt)
        total *= out.shape[-ax]
    if inverse:
        inv = Fl(1.0 / total, Fraction(1, total))
        out = emap(lambda v: sym.cscale(sym.asc(v), inv, rdt), out)
    return out


# --------------------------------------------------------------------------
# interpreter
# --------------------------------------------------------------------------


class EncodingError(Exception):
    pass


_CALL_PRIMS = {"jit", "pjit", "closed_call", "core_call", "custom_jvp_call", "custom_vjp_call", "remat", "checkpoint", "custom_lin"}

_TRANSCENDENTAL = {"exp", "exp2", "log", "log1p", "expm1", "sin", "cos", "tan", "tanh", "sqrt", "rsqrt", "cbrt", "pow", "atan2", "erf", "logistic", "asin", "acos", "atan", "sinh", "cosh"}


_INTERP_SERIAL = [0]


class Interp:
    def __init__(self, tag=""):
        # Ackermann variables are named after the run: the serial number makes the names unique even when two encodings
        # are given the same tag (same-named variables of different runs would be ONE solver variable)
        _INTERP_SERIAL[0] += 1
        self.tag = f"{tag}{_INTERP_SERIAL[0]}x" if not os.environ.get("VERIF_OLD_TAGS") else tag
        self.ackdefs = {}
        self.sqrt_facts = []
        self.calls = {}  # primitive name -> list of dict(arg=..., out=...)
        self.uf_calls = []  # (name, ins, outs)
        self.narrowing = []  # precision-narrowing conversions applied to symbolic data
        self.uf_hook = None
        self.prim_count = {}
        self.eqns = 0
        self._ackcache = {}

    # ----- public -----
    def run(self, closed, *args):
        jaxpr = closed.jaxpr if hasattr(closed, "jaxpr") else closed
        consts = closed.consts if hasattr(closed, "consts") else ()
        args = [a if (isinstance(a, np.ndarray) and a.dtype == object) else to_obj(a) for a in args]
        return self._eval(jaxpr, consts, args)

    # ----- core -----
    def _eval(self, jaxpr, consts, args):
        env = {}

        def read(v):
            if isinstance(v, jcore.Literal):
                return to_obj(v.val)
            return env[v]

        for v, c in zip(jaxpr.constvars, consts):
            env[v] = c if (isinstance(c, np.ndarray) and c.dtype == object) else to_obj(np.asarray(c))
        assert len(jaxpr.invars) == len(args), (len(jaxpr.invars), len(args))
        for v, a in zip(jaxpr.invars, args):
            if not isinstance(a, np.ndarray):
                a = scalar(a)
            if tuple(a.shape) != tuple(v.aval.shape):
                raise EncodingError(f"input shape {a.shape} != aval {v.aval.shape}")
            env[v] = a
        for e in jaxpr.eqns:
            ins = [read(v) for v in e.invars]
            outs = self._eqn(e, ins)
            for v, o in zip(e.outvars, outs):
                if not isinstance(o, np.ndarray):
                    o = scalar(o)
                if tuple(o.shape) != tuple(v.aval.shape):
                    raise EncodingError(f"{e.primitive.name}: produced shape {o.shape}, aval {v.aval.shape}")
                env[v] = o
        return [read(v) for v in jaxpr.outvars]

    def _eqn(self, e, ins):
        p = e.primitive.name
        self.eqns += 1
        self.prim_count[p] = self.prim_count.get(p, 0) + 1
        prm = e.params
        if p in _CALL_PRIMS:
            cj = prm.get("jaxpr") or prm.get("call_jaxpr") or prm.get("fun_jaxpr")
            if hasattr(cj, "jaxpr"):
                return self._eval(cj.jaxpr, cj.consts, ins)
            return self._eval(cj, (), ins)
        if p == "uf":
            return self._uf(e, ins)
        h = getattr(self, "p_" + p.replace("-", "_"), None)
        odt = e.outvars[0].aval.dtype if e.outvars else None
        if h is not None:
            r = h(e, ins, prm, odt)
            if r is not NotImplemented:
                return r
        if all(all_conc(a) for a in ins):
            return self._bind_native(e, ins)
        raise EncodingError(f"primitive {p} with symbolic operands not supported (params {list(prm)})")

    def _bind_native(self, e, ins):
        conc = [_native_in(a, v.aval) for a, v in zip(ins, e.invars)]
        with jax.ensure_compile_time_eval():
            res = e.primitive.bind(*conc, **e.params)
        res = res if e.primitive.multiple_results else [res]
        inexact = e.primitive.name in _TRANSCENDENTAL
        return [_native_out(r, inexact) for r in res]

    # ----- opaque / Ackermannised functions -----
    def _uf(self, e, ins):
        name = e.params["name"]
        if self.uf_hook is not None:
            outs = self.uf_hook(name, ins, e)
            if outs is not None:
                self.uf_calls.append((name, ins, outs))
                return outs
        k = len(self.uf_calls)
        outs = []
        for oi, (shape, dt) in enumerate(e.params["out_avals"]):
            outs.append(symarray(f"uf_{name}_{k}_{oi}", shape, complex_=np.dtype(dt).kind == "c"))
        self.uf_calls.append((name, ins, outs))
        return outs

    def _ack(self, fname, arg, complex_out, facts=None):
        """fresh result for fname(arg), cached on the syntactic argument"""
        if isinstance(arg, Cx):
            key = (fname, _tid(arg.re), _tid(arg.im))
        else:
            key = (fname, _tid(arg))
        if key in self._ackcache:
            return self._ackcache[key]
        n = len(self._ackcache)
        tag = f"{fname}{self.tag}_{n}"
        if complex_out:
            out = Cx(z3.Real(f"{tag}_re"), z3.Real(f"{tag}_im"))
            self.ackdefs[f"{tag}_re"] = (fname, arg, "re")
            self.ackdefs[f"{tag}_im"] = (fname, arg, "im")
        else:
            out = z3.Real(tag)
            self.ackdefs[tag] = (fname, arg, None)
        self._ackcache[key] = out
        return out

    def _trans(self, fname, e, ins, odt):
        a = ins[0]
        if all_conc(a):
            return NotImplemented
        cplx = np.dtype(odt).kind == "c"

        def f(x):
            if sym.is_conc(x):
                # concrete element inside a partly symbolic array
                nat = to_native(scalar(x), e.invars[0].aval.dtype)
                with jax.ensure_compile_time_eval():
                    r = e.primitive.bind(jnp.asarray(nat), **e.params)
                return to_obj(np.asarray(r), inexact=True)[()]
            return self._ack(fname, x, cplx)

        out = emap(f, a)
        self.calls.setdefault(fname, []).append({"arg": a, "out": out})
        return [out]

    def p_exp(self, e, ins, prm, odt):
        return self._trans("exp", e, ins, odt)

    def p_expm1(self, e, ins, prm, odt):
        # expm1(x) = exp(x) - 1 through the SAME Ackermannised exp (relations between the two stay visible);
        # concrete elements are evaluated natively by the expm1 primitive itself
        a = ins[0]
        if all_conc(a):
            return NotImplemented
        cplx = np.dtype(odt).kind == "c"
        one = sym.asfl(1)

        def f(x):
            if sym.is_conc(x):
                nat = to_native(scalar(x), e.invars[0].aval.dtype)
                with jax.ensure_compile_time_eval():
                    r = e.primitive.bind(jnp.asarray(nat), **e.params)
                return to_obj(np.asarray(r), inexact=True)[()]
            return sym.sub(self._ack("exp", x, cplx), one, odt)

        ex_out = emap(lambda x: x if sym.is_conc(x) else self._ack("exp", x, cplx), a)
        self.calls.setdefault("exp", []).append({"arg": a, "out": ex_out})
        return [emap(f, a)]

    def p_sin(self, e, ins, prm, odt):
        return self._trans("sin", e, ins, odt)

    def p_cos(self, e, ins, prm, odt):
        return self._trans("cos", e, ins, odt)

    def p_log(self, e, ins, prm, odt):
        return self._trans("log", e, ins, odt)

    def p_tanh(self, e, ins, prm, odt):
        return self._trans("tanh", e, ins, odt)

    def p_sqrt(self, e, ins, prm, odt):
        a = ins[0]
        if all_conc(a):
            return NotImplemented
        if np.dtype(odt).kind == "c":
            return self._trans("csqrt", e, ins, odt)

        def f(x):
            if sym.is_conc(x):
                x = sym.asfl(x)
                r = math.sqrt(x.nat) if x.nat >= 0 else float("nan")
                if isinstance(x.ex, Fraction):
                    num, den = x.ex.numerator, x.ex.denominator
                    if num >= 0 and math.isqrt(num) ** 2 == num and math.isqrt(den) ** 2 == den:
                        return Fl(r, Fraction(math.isqrt(num), math.isqrt(den)))
                return sym.from_native(r, inexact=True)
            s = self._ack("sqrt", x, False)
            self.sqrt_facts.append((x, s)); sym._SQRT_OF[s.get_id()] = (s, sym.zr(x)); _register_sqrt(x, s)
            return s

        out = emap(f, a)
        self.calls.setdefault("sqrt", []).append({"arg": a, "out": out})
        return [out]

    def p_rsqrt(self, e, ins, prm, odt):
        if all_conc(ins[0]):
            return NotImplemented
        s = self.p_sqrt(e, ins, prm, odt)[0]
        return [emap(lambda v: sym.rdiv(ONE, v, odt), s)]

    def p_pow(self, e, ins, prm, odt):
        a, b = ins
        if all_conc(a) and all_conc(b):
            return NotImplemented
        if not all_conc(b):
            raise EncodingError("pow with symbolic exponent")

        def f(x, y):
            y = sym.asfl(y)
            if isinstance(y.ex, Fraction) and y.ex.denominator == 1 and abs(y.ex) <= 12:
                return sym.pow_int(x, int(y.ex), odt)
            if isinstance(y.ex, Fraction) and y.ex.denominator == 2 and abs(y.ex) <= 12 and not isinstance(x, Cx):
                # x^(n/2) = sqrt(x)^n (real x >= 0; the Ackermannised sqrt carries s >= 0, s^2 = x)
                s = self._ack("sqrt", x, False)
                self.sqrt_facts.append((x, s)); sym._SQRT_OF[s.get_id()] = (s, sym.zr(x)); _register_sqrt(x, s)
                return s if y.ex == Fraction(1, 2) else sym.pow_int(s, int(y.ex.numerator), odt)
            raise EncodingError(f"pow with exponent {y}")

        return [emap(f, a, b)]

    def sound_facts(self):
        """sound facts about Ackermannised sqrt results: s >= 0 and s*s == x
        (for x >= 0; a negative radicand is reported as a definedness issue)."""
        out = []
        for x, s in self.sqrt_facts:
            X = sym.zr(x)
            out.append(z3.Implies(X >= 0, z3.And(s >= 0, s * s == X)))
        return out

    # ----- element-wise arithmetic -----
    def _ew(self, f, ins, odt):
        return [emap(lambda *xs: f(*xs, odt), *ins)]

    def p_add(self, e, ins, prm, odt):
        return self._ew(sym.add, ins, odt)

    p_add_any = p_add

    def p_sub(self, e, ins, prm, odt):
        return self._ew(sym.sub, ins, odt)

    def p_mul(self, e, ins, prm, odt):
        return self._ew(sym.mul, ins, odt)

    def p_div(self, e, ins, prm, odt):
        if np.dtype(odt).kind in "iu":
            return NotImplemented
        return self._ew(sym.div, ins, odt)

    def p_neg(self, e, ins, prm, odt):
        return [emap(sym.neg, ins[0])]

    def p_integer_pow(self, e, ins, prm, odt):
        y = prm["y"]
        return [emap(lambda a: sym.pow_int(a, y, odt), ins[0])]

    def p_square(self, e, ins, prm, odt):
        return [emap(lambda a: sym.mul(a, a, odt), ins[0])]

    def p_abs(self, e, ins, prm, odt):
        a = ins[0]
        if np.dtype(e.invars[0].aval.dtype).kind == "c":
            if all_conc(a):
                return NotImplemented
            def f(x):
                x = sym.asc(x)
                if sym.is_conc(x):
                    return sym.from_native(abs(complex(x.re.nat, x.im.nat)), inexact=True)
                m2 = sym.cabs2(x, odt)
                s = self._ack("sqrt", m2, False)
                self.sqrt_facts.append((m2, s)); sym._SQRT_OF[s.get_id()] = (s, sym.zr(m2)); _register_sqrt(m2, s)
                return s

            out = emap(f, a)
            self.calls.setdefault("cabs", []).append({"arg": a, "out": out})
            return [out]
        return [emap(lambda x: sym.rabs(x, odt), a)]

    def p_sign(self, e, ins, prm, odt):
        if np.dtype(odt).kind == "c":
            return NotImplemented
        return [emap(lambda x: sym.rsign(x, odt), ins[0])]

    def p_max(self, e, ins, prm, odt):
        return self._ew(sym.rmax, ins, odt)

    def p_min(self, e, ins, prm, odt):
        return self._ew(sym.rmin, ins, odt)

    def p_real(self, e, ins, prm, odt):
        return [emap(lambda a: sym.asc(a).re, ins[0])]

    def p_imag(self, e, ins, prm, odt):
        return [emap(lambda a: sym.asc(a).im, ins[0])]

    def p_complex(self, e, ins, prm, odt):
        return [emap(lambda a, b: Cx(a, b), *ins)]

    def p_conj(self, e, ins, prm, odt):
        return [emap(lambda a: sym.cconj(sym.asc(a)), ins[0])]

    def p_convert_element_type(self, e, ins, prm, odt):
        new = np.dtype(prm["new_dtype"])
        old = np.dtype(e.invars[0].aval.dtype)
        a = ins[0]
        if old.kind in "fc" and new.kind in "fc" and new.itemsize * (2 if new.kind == "f" else 1) < old.itemsize * (2 if old.kind == "f" else 1) and not all_conc(a):
            # input-dependent data is rounded to a narrower float type: the real-arithmetic encoding does not model that
            # rounding; it is recorded and reported when translator validation sees its effect
            self.narrowing.append((str(old), str(new)))
        if new.kind == "c":
            def f(x):
                if isinstance(x, Cx):
                    return x
                if isinstance(x, (bool, int)):
                    return Cx(sym.asfl(x), ZERO)
                return Cx(x, ZERO)
            return [emap(f, a)]
        if new.kind == "f":
            if old.kind == "c":
                return [emap(lambda x: sym.asc(x).re, a)]

            def g(x):
                if isinstance(x, (bool, int, np.bool_, np.integer)):
                    return sym.asfl(int(x) if not isinstance(x, (bool, np.bool_)) else bool(x))
                if isinstance(x, Fl):
                    nat = sym._round(x.nat, new)
                    return Fl(nat, x.ex, x.ok)
                if z3.is_bool(x):
                    return z3.If(x, z3.RealVal(1), z3.RealVal(0))
                return x
            return [emap(g, a)]
        if new.kind in "iu":
            if old.kind in "iub":
                return [emap(lambda x: int(x) if isinstance(x, (bool, int, np.bool_, np.integer)) else (z3.If(x, z3.RealVal(1), z3.RealVal(0)) if z3.is_bool(x) else x), a)]
            if all_conc(a):
                return NotImplemented
            raise EncodingError("float->int conversion of symbolic value")
        if new.kind == "b":
            return [emap(lambda x: sym.cmp("ne", x, 0 if isinstance(x, (int, bool)) else ZERO), a)]
        return NotImplemented

    # ----- comparisons / logic -----
    def _cmp(self, op, ins):
        return [emap(lambda a, b: sym.cmp(op, a, b), *ins)]

    def p_eq(self, e, ins, prm, odt):
        return self._cmp("eq", ins)

    def p_ne(self, e, ins, prm, odt):
        return self._cmp("ne", ins)

    def p_lt(self, e, ins, prm, odt):
        return self._cmp("lt", ins)

    def p_le(self, e, ins, prm, odt):
        return self._cmp("le", ins)

    def p_gt(self, e, ins, prm, odt):
        return self._cmp("gt", ins)

    def p_ge(self, e, ins, prm, odt):
        return self._cmp("ge", ins)

    def p_and(self, e, ins, prm, odt):
        if np.dtype(odt).kind != "b":
            return NotImplemented
        return [emap(sym.band, *ins)]

    def p_or(self, e, ins, prm, odt):
        if np.dtype(odt).kind != "b":
            return NotImplemented
        return [emap(sym.bor, *ins)]

    def p_not(self, e, ins, prm, odt):
        if np.dtype(odt).kind != "b":
            return NotImplemented
        return [emap(sym.bnot, ins[0])]

    def p_select_n(self, e, ins, prm, odt):
        pred = ins[0]
        cases = ins[1:]
        if np.dtype(e.invars[0].aval.dtype).kind == "b":
            assert len(cases) == 2
            return [emap(sym.select, pred, cases[0], cases[1])]
        if not all_conc(pred):
            raise EncodingError("select_n with symbolic integer predicate")
        cs = np.broadcast_arrays(pred, *cases)
        out = np.empty(cs[0].shape, dtype=object)
        for i in np.ndindex(out.shape):
            out[i] = cs[1 + int(cs[0][i])][i]
        return [out]

    def p_clamp(self, e, ins, prm, odt):
        lo, x, hi = ins
        return [emap(lambda l, v, h: sym.rmin(sym.rmax(v, l, odt), h, odt), lo, x, hi)]

    def p_stop_gradient(self, e, ins, prm, odt):
        return [ins[0]]

    def p_copy(self, e, ins, prm, odt):
        return [ins[0]]

    p_copy_p = p_copy

    def p_is_finite(self, e, ins, prm, odt):
        if all_conc(ins[0]):
            return NotImplemented
        return [emap(lambda x: True if not sym.is_conc(x) else math.isfinite(sym.asfl(x).nat), ins[0])]

    # ----- structural -----
    def p_broadcast_in_dim(self, e, ins, prm, odt):
        shape = tuple(prm["shape"])
        bd = prm["broadcast_dimensions"]
        a = ins[0]
        newshape = [1] * len(shape)
        for i, d in enumerate(bd):
            newshape[d] = a.shape[i]
        return [np.broadcast_to(a.reshape(newshape), shape).copy()]

    def p_reshape(self, e, ins, prm, odt):
        return [ins[0].reshape(tuple(prm["new_sizes"]))]

    def p_squeeze(self, e, ins, prm, odt):
        return [np.squeeze(ins[0], axis=tuple(prm["dimensions"]))]

    def p_expand_dims(self, e, ins, prm, odt):
        return [np.expand_dims(ins[0], tuple(prm["dimensions"]))]

    def p_transpose(self, e, ins, prm, odt):
        return [np.transpose(ins[0], prm["permutation"])]

    def p_rev(self, e, ins, prm, odt):
        return [np.flip(ins[0], axis=tuple(prm["dimensions"]))]

    def p_concatenate(self, e, ins, prm, odt):
        return [np.concatenate(ins, axis=prm["dimension"])]

    def p_stack(self, e, ins, prm, odt):
        return [np.stack(ins, axis=prm["axis"])]

    def p_unstack(self, e, ins, prm, odt):
        ax = prm["axis"]
        a = ins[0]
        return [np.take(a, i, axis=ax) for i in range(a.shape[ax])]

    def p_split(self, e, ins, prm, odt):
        sizes = prm["sizes"]
        ax = prm["axis"]
        idx = np.cumsum(sizes)[:-1]
        return list(np.split(ins[0], idx, axis=ax))

    def p_slice(self, e, ins, prm, odt):
        st = prm["strides"] or [1] * len(prm["start_indices"])
        sl = tuple(slice(s, l, t) for s, l, t in zip(prm["start_indices"], prm["limit_indices"], st))
        return [ins[0][sl]]

    def p_pad(self, e, ins, prm, odt):
        a, pv = ins
        cfg = prm["padding_config"]
        pv = pv[()]
        shape = []
        for s, (lo, hi, it) in zip(a.shape, cfg):
            shape.append(lo + hi + s + max(s - 1, 0) * it)
        if any(lo < 0 or hi < 0 for lo, hi, _ in cfg):
            # negative padding = cropping; do via positive pad then slice
            cfgp = [(max(lo, 0), max(hi, 0), it) for lo, hi, it in cfg]
            shapep = [max(lo, 0) + max(hi, 0) + s + max(s - 1, 0) * it for s, (lo, hi, it) in zip(a.shape, cfg)]
            out = oarr(shapep, pv)
            sl = tuple(slice(lo, lo + s + max(s - 1, 0) * it if s else lo, it + 1) for s, (lo, hi, it) in zip(a.shape, cfgp))
            out[sl] = a
            crop = tuple(slice(-min(lo, 0), sp + min(hi, 0)) for sp, (lo, hi, it) in zip(shapep, cfg))
            return [out[crop]]
        out = oarr(shape, pv)
        sl = tuple(slice(lo, lo + s + max(s - 1, 0) * it if s else lo, it + 1) for s, (lo, hi, it) in zip(a.shape, cfg))
        out[sl] = a
        return [out]

    def p_iota(self, e, ins, prm, odt):
        return NotImplemented

    def _dyn_starts(self, idx_arrays, shape, sizes):
        starts = []
        for ia, dim, sz in zip(idx_arrays, shape, sizes):
            v = ia[()]
            if not isinstance(v, (int, bool)):
                raise EncodingError("dynamic slice with symbolic index")
            starts.append(min(max(int(v), 0), dim - sz))
        return starts

    def p_dynamic_slice(self, e, ins, prm, odt):
        a = ins[0]
        sizes = prm["slice_sizes"]
        starts = self._dyn_starts(ins[1:], a.shape, sizes)
        return [a[tuple(slice(s, s + z) for s, z in zip(starts, sizes))]]

    def p_dynamic_update_slice(self, e, ins, prm, odt):
        a, upd = ins[0], ins[1]
        starts = self._dyn_starts(ins[2:], a.shape, upd.shape)
        out = a.copy()
        out[tuple(slice(s, s + z) for s, z in zip(starts, upd.shape))] = upd
        return [out]

    def _index_probe(self, e, ins, which):
        """run the real primitive with operand `which` replaced by int ids to
        learn the data movement (only valid for pure-movement primitives)."""
        conc = []
        for k, (a, v) in enumerate(zip(ins, e.invars)):
            if k == which:
                conc.append(jnp.arange(int(np.prod(a.shape)), dtype=jnp.int32).reshape(a.shape) + 1)
            else:
                if not all_conc(a):
                    return None
                conc.append(jnp.asarray(to_native(a, v.aval.dtype)))
        return conc

    def p_gather(self, e, ins, prm, odt):
        a, idx = ins
        if not all_conc(idx):
            raise EncodingError("gather with symbolic indices")
        ids = jnp.arange(a.size, dtype=jnp.int32).reshape(a.shape) + 1
        prm2 = dict(prm)
        fv = prm2.get("fill_value")
        prm2["fill_value"] = 0
        with jax.ensure_compile_time_eval():
            r = np.asarray(e.primitive.bind(ids, jnp.asarray(to_native(idx, e.invars[1].aval.dtype)), **prm2))
        flat = a.reshape(-1)
        out = np.empty(r.shape, dtype=object)
        for i in np.ndindex(r.shape):
            k = int(r[i])
            if k == 0:
                out[i] = sym.from_native(fv if fv is not None else float("nan"))
            else:
                out[i] = flat[k - 1]
        return [out]

    def _scatter_generic(self, e, ins, prm, odt, combine):
        a, idx, upd = ins
        if not all_conc(idx):
            raise EncodingError("scatter with symbolic indices")
        # learn where each update element lands: scatter the update ids one
        # power-of-two bucket at a time is overkill; instead scatter ids with
        # 'set' semantics per update element group of unique targets.
        nidx = jnp.asarray(to_native(idx, e.invars[1].aval.dtype))
        n_upd = int(np.prod(upd.shape)) if upd.shape else 1
        target = np.full(n_upd, -1, dtype=np.int64)
        # Use jax.lax.scatter (set) with updates = id and operand = 0 on one
        # update element at a time when collisions are possible; first try all
        # at once and verify it is collision free.
        base = jnp.zeros(a.shape, dtype=jnp.int32)
        ids = (jnp.arange(n_upd, dtype=jnp.int32) + 1).reshape(upd.shape)
        dn = prm["dimension_numbers"]
        kw = dict(indices_are_sorted=prm.get("indices_are_sorted", False), unique_indices=False, mode=prm.get("mode"))
        with jax.ensure_compile_time_eval():
            once = np.asarray(jax.lax.scatter(base, nidx, ids, dn, **kw))
            cnt = np.asarray(jax.lax.scatter_add(base, nidx, jnp.ones(upd.shape, jnp.int32), dn, **kw))
        out = a.copy()
        uflat = upd.reshape(-1)
        if int(cnt.max(initial=0)) <= 1:
            for i in np.ndindex(a.shape):
                k = int(once[i])
                if k:
                    out[i] = combine(a[i], uflat[k - 1])
            return [out]
        # collisions: fall back to one update element at a time
        for u in range(n_upd):
            onehot = jnp.zeros((n_upd,), jnp.int32).at[u].set(1).reshape(upd.shape)
            with jax.ensure_compile_time_eval():
                hit = np.asarray(jax.lax.scatter_add(base, nidx, onehot, dn, **kw))
            for i in zip(*np.nonzero(hit)):
                out[i] = combine(out[i], uflat[u])
        return [out]

    def p_scatter(self, e, ins, prm, odt):
        return self._scatter_generic(e, ins, prm, odt, lambda old, new: new)

    def p_scatter_add(self, e, ins, prm, odt):
        return self._scatter_generic(e, ins, prm, odt, lambda old, new: sym.add(old, new, odt))

    def p_scatter_mul(self, e, ins, prm, odt):
        return self._scatter_generic(e, ins, prm, odt, lambda old, new: sym.mul(old, new, odt))

    # ----- reductions -----
    def _reduce(self, a, axes, f):
        axes = tuple(axes)
        if not axes:
            return a
        a = np.moveaxis(a, axes, range(len(axes)))
        red = a.reshape((-1,) + a.shape[len(axes):])
        out = np.empty(red.shape[1:], dtype=object)
        for i in np.ndindex(out.shape):
            out[i] = f([red[(t,) + i] for t in range(red.shape[0])])
        return out

    def p_reduce_sum(self, e, ins, prm, odt):
        return [self._reduce(ins[0], prm["axes"], lambda ts: sym.ssum(ts, odt))]

    def p_reduce_prod(self, e, ins, prm, odt):
        def f(ts):
            acc = ts[0]
            for t in ts[1:]:
                acc = sym.mul(acc, t, odt)
            return acc
        return [self._reduce(ins[0], prm["axes"], f)]

    def p_reduce_max(self, e, ins, prm, odt):
        def f(ts):
            acc = ts[0]
            for t in ts[1:]:
                acc = sym.rmax(acc, t, odt)
            return acc
        return [self._reduce(ins[0], prm["axes"], f)]

    def p_reduce_min(self, e, ins, prm, odt):
        def f(ts):
            acc = ts[0]
            for t in ts[1:]:
                acc = sym.rmin(acc, t, odt)
            return acc
        return [self._reduce(ins[0], prm["axes"], f)]

    def p_reduce_and(self, e, ins, prm, odt):
        def f(ts):
            acc = ts[0]
            for t in ts[1:]:
                acc = sym.band(acc, t)
            return acc
        return [self._reduce(ins[0], prm["axes"], f)]

    def p_reduce_or(self, e, ins, prm, odt):
        def f(ts):
            acc = ts[0]
            for t in ts[1:]:
                acc = sym.bor(acc, t)
            return acc
        return [self._reduce(ins[0], prm["axes"], f)]

    def p_cumsum(self, e, ins, prm, odt):
        a = np.moveaxis(ins[0], prm["axis"], -1)
        out = np.empty(a.shape, dtype=object)
        for idx in np.ndindex(a.shape[:-1]):
            acc = None
            for j in (reversed(range(a.shape[-1])) if prm.get("reverse") else range(a.shape[-1])):
                acc = a[idx + (j,)] if acc is None else sym.add(acc, a[idx + (j,)], odt)
                out[idx + (j,)] = acc
        return [np.moveaxis(out, -1, prm["axis"])]

    def p_dot_general(self, e, ins, prm, odt):
        a, b = ins
        (ca, cb), (ba, bb) = prm["dimension_numbers"]
        ca, cb, ba, bb = map(tuple, (ca, cb, ba, bb))
        fa = [i for i in range(a.ndim) if i not in ca and i not in ba]
        fb = [i for i in range(b.ndim) if i not in cb and i not in bb]
        A = np.transpose(a, list(ba) + fa + list(ca))
        B = np.transpose(b, list(bb) + fb + list(cb))
        bshape = A.shape[: len(ba)]
        fas = A.shape[len(ba): len(ba) + len(fa)]
        fbs = B.shape[len(bb): len(bb) + len(fb)]
        cs = A.shape[len(ba) + len(fa):]
        out = np.empty(tuple(bshape) + tuple(fas) + tuple(fbs), dtype=object)
        for bi in np.ndindex(tuple(bshape)):
            for ia in np.ndindex(tuple(fas)):
                for ib in np.ndindex(tuple(fbs)):
                    terms = []
                    for ci in np.ndindex(tuple(cs)):
                        terms.append(sym.mul(A[bi + ia + ci], B[bi + ib + ci], odt))
                    out[bi + ia + ib] = sym.ssum(terms, odt) if terms else ZERO
        return [out]

    def p_fft(self, e, ins, prm, odt):
        return [fft_rule(ins[0], prm["fft_type"], tuple(prm["fft_lengths"]), odt)]

    # ----- control -----
    def p_scan(self, e, ins, prm, odt):
        if "num_consts" in prm:
            nc, ncar = prm["num_consts"], prm["num_carry"]
        else:  # newer JAX: ft_in = (consts, carry, xs) groups
            g = prm["ft_in"].unpack()
            nc, ncar = len(g[0]), len(g[1])
        length = prm["length"]
        cj = prm["jaxpr"]
        if not hasattr(cj, "jaxpr"):
            class _C:  # raw Jaxpr
                pass
            c_ = _C()
            c_.jaxpr, c_.consts = cj, ()
            cj = c_
        consts = ins[:nc]
        carry = list(ins[nc: nc + ncar])
        xs = ins[nc + ncar:]
        n_out = len(cj.jaxpr.outvars) - ncar
        ys = [[] for _ in range(n_out)]
        order = range(length - 1, -1, -1) if prm.get("reverse") else range(length)
        for t in order:
            xt = [x[t] for x in xs]
            res = self._eval(cj.jaxpr, cj.consts, list(consts) + carry + xt)
            carry = list(res[:ncar])
            for k, y in enumerate(res[ncar:]):
                ys[k].append(y)
        outs = carry
        for k in range(n_out):
            seq = ys[k][::-1] if prm.get("reverse") else ys[k]
            if length == 0:
                av = e.outvars[ncar + k].aval
                outs.append(np.empty(av.shape, dtype=object))
            else:
                outs.append(np.stack(seq, axis=0))
        return outs

    def p_cond(self, e, ins, prm, odt):
        idx = ins[0][()]
        if isinstance(idx, (np.bool_, np.integer)):
            idx = int(idx)
        if not isinstance(idx, (int, bool)):
            # symbolic predicate (two branches): both branches are executed symbolically and merged element-wise
            if len(prm["branches"]) != 2:
                raise EncodingError("cond with a symbolic index over more than two branches")
            if isinstance(idx, Fl) or not z3.is_expr(idx):
                raise EncodingError("cond with an unexpected predicate value")
            pred = idx if z3.is_bool(idx) else (idx != 0)  # lax.cond passes the predicate as an int32 index (0 / 1)
            outs = [self._eval(br.jaxpr, br.consts, ins[1:]) for br in prm["branches"]]
            return [emap(lambda f_, t_: sym.select(pred, f_, t_), a, b) for a, b in zip(outs[0], outs[1])]
        br = prm["branches"][int(idx)]
        return self._eval(br.jaxpr, br.consts, ins[1:])

    def p_while(self, e, ins, prm, odt):
        cn, bn = prm["cond_nconsts"], prm["body_nconsts"]
        cj, bj = prm["cond_jaxpr"], prm["body_jaxpr"]
        cc, bc, st = ins[:cn], ins[cn: cn + bn], list(ins[cn + bn:])
        it = 0
        while True:
            c = self._eval(cj.jaxpr, cj.consts, list(cc) + st)[0][()]
            if not isinstance(c, bool):
                raise EncodingError("while with symbolic condition")
            if not c:
                return st
            st = self._eval(bj.jaxpr, bj.consts, list(bc) + st)
            it += 1
            if it > 10000:
                raise EncodingError("while: too many iterations")


def _tid(x):
    if z3.is_expr(x):
        return ("z", x.get_id())
    if isinstance(x, Fl):
        return ("f", x.nat)
    return ("c", x)


# --------------------------------------------------------------------------
# convenience
# --------------------------------------------------------------------------


def trace(f, *example_args, **kw):
    return jax.make_jaxpr(f, **kw)(*example_args)


def hermitian_spectrum(prefix, n_points, ndim, channels, band=None):
    """Symbolic half-spectrum (C, N, ..., N//2+1) of a REAL field: entries on
    the self-conjugate planes (last-axis wavenumber 0 or N/2) are tied to
    their partners.  ``band``: keep only |k|_inf <= band (others zero)."""
    N = n_points
    m = N // 2 + 1
    shape = (channels,) + (N,) * (ndim - 1) + (m,)
    out = np.empty(shape, dtype=object)

    def wn(i):
        return i if i <= N // 2 else i - N

    zero = Cx(ZERO, ZERO)
    for c in range(channels):
        for i in np.ndindex(shape[1:]):
            k = tuple(wn(ii) for ii in i[:-1]) + (i[-1],)
            if band is not None and max(abs(x) for x in k) > band:
                out[(c,) + i] = zero
                continue
            selfconj_last = i[-1] == 0 or (N % 2 == 0 and i[-1] == N // 2)
            if selfconj_last:
                j = tuple((-ii) % N for ii in i[:-1]) + (i[-1],)
                if j == i:
                    out[(c,) + i] = Cx(z3.Real(f"{prefix}{c}_{'_'.join(map(str, i))}_re"), ZERO)
                    continue
                if j < i:
                    p = out[(c,) + j]
                    out[(c,) + i] = Cx(p.re, sym.rneg(p.im))
                    continue
            nm = f"{prefix}{c}_{'_'.join(map(str, i))}"
            out[(c,) + i] = Cx(z3.Real(nm + "_re"), z3.Real(nm + "_im"))
    return out
