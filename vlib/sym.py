"""Scalar domain of the jaxpr-to-SMT interpreter (engine E1, DESIGN.md 2.1).

A scalar is one of

* ``bool`` / ``int``            -- concrete, exact
* ``Fl``                        -- concrete float: native value (what JAX
                                   computes) + exact ideal value (Fraction or a
                                   z3 term such as ``2*PI``) + ok flag
* ``z3.ArithRef`` (sort Real)   -- symbolic real
* ``z3.BoolRef``                -- symbolic bool
* ``Cx(re, im)``                -- complex; parts are ``Fl`` or z3 reals

All arithmetic on symbolic values is real arithmetic (not IEEE).  Concrete
floats keep both what the machine computes (used for every decision the real
code takes: comparisons, select predicates, indices) and the exact rational
(used when the value meets a symbolic operand).
"""
from __future__ import annotations

import math
from fractions import Fraction

import numpy as np
import z3

# --------------------------------------------------------------------------
# global, per-process context (reset by Interp)
# --------------------------------------------------------------------------


class Ctx:
    def __init__(self):
        self.reset()

    def reset(self):
        self.axioms = []  # sound facts about named constants (PI, sqrt2, twiddles)
        self.consts = {}
        self.audit = []  # exactness audit log
        self.poison = []  # concrete undefined values that met symbolic data
        self.fresh = 0
        self.divisors = []  # symbolic divisors seen (definedness obligations)
        self.ack_div = False  # Ackermannise division by symbolic divisors
        self.quots = []  # (numerator, denominator, result var) when ack_div
        self.defs = {}  # name of an Ackermannised sqrt result -> its defining fact (added to every query that mentions the name)

    def const(self, name, *facts_fn):
        if name not in self.consts:
            v = z3.Real(name)
            self.consts[name] = v
            for f in facts_fn:
                self.axioms.extend(f(v))
        return self.consts[name]

    def freshvar(self, prefix):
        self.fresh += 1
        return z3.Real(f"{prefix}!{self.fresh}")


CTX = Ctx()


def PI():
    return CTX.const("PI", lambda v: [v > z3.RealVal("3.14159265358979"), v < z3.RealVal("3.14159265358980")])


def SQRT(n):
    n = int(n)
    lo = Fraction(math.isqrt(n * 10**12), 10**6)
    return CTX.const(
        f"sqrt{n}",
        lambda v: [v * v == n, v > qv(lo), v < qv(lo + Fraction(1, 10**6))],
    )


def qv(fr):
    """z3 numeral for a Fraction / int."""
    if isinstance(fr, int):
        return z3.RealVal(fr)
    fr = Fraction(fr)
    if fr.denominator == 1:
        return z3.RealVal(str(fr.numerator))
    return z3.Q(fr.numerator, fr.denominator)


# --------------------------------------------------------------------------
# concrete floats
# --------------------------------------------------------------------------

_F32 = np.dtype("float32")
_F64 = np.dtype("float64")


class Fl:
    """Concrete float with native and exact halves.

    ``ex`` is a Fraction, a z3 Real term (lifted constant) or None (undefined:
    native value is inf/nan or came from a division by a concrete zero).
    ``ok`` is False when the exact half is only the float's own rational value
    although the ideal value is irrational (result of a concrete exp/sqrt...).
    """

    __slots__ = ("nat", "ex", "ok")

    def __init__(self, nat, ex="auto", ok=True):
        self.nat = float(nat)
        if isinstance(ex, str):
            ex = Fraction(self.nat) if math.isfinite(self.nat) else None
        self.ex = ex
        self.ok = ok

    def __repr__(self):
        return f"Fl({self.nat!r},{'~' if not self.ok else ''}{self.ex if not z3.is_expr(self.ex) else 'sym'})"

    @property
    def is_zero(self):
        return isinstance(self.ex, Fraction) and self.ex == 0

    @property
    def is_one(self):
        return isinstance(self.ex, Fraction) and self.ex == 1


ZERO = Fl(0.0, Fraction(0))
ONE = Fl(1.0, Fraction(1))


def _lift_table():
    """(value64, builder) pairs for ideal constants recognised in float data."""
    out = []
    for num, den in [(1, 1), (2, 1), (1, 2), (4, 1), (1, 4), (3, 2)]:
        out.append((math.pi * num / den, lambda n=num, d=den: PI() * qv(Fraction(n, d))))
    out.append((math.sqrt(2.0), lambda: SQRT(2)))
    out.append((1 / math.sqrt(2.0), lambda: SQRT(2) * qv(Fraction(1, 2))))
    out.append((math.sqrt(3.0), lambda: SQRT(3)))
    out.append((math.sqrt(3.0) / 2, lambda: SQRT(3) * qv(Fraction(1, 2))))
    return out


_LIFT = _lift_table()


def lift(x: float):
    """Return a z3 term for an ideal constant if x is (to 1 ulp in f32 or f64)
    one of the table entries, else None."""
    if not math.isfinite(x) or x == 0.0:
        return None
    ax = abs(x)
    for val, build in _LIFT:
        for dt in (np.float64, np.float32):
            v = float(dt(val))
            ulp = float(np.spacing(dt(val)))
            if abs(ax - v) <= ulp and (dt is np.float64 or float(np.float32(ax)) == ax):
                t = build()
                return t if x > 0 else -t
    return None


def from_native(x, *, inexact=False):
    """Wrap a native python/numpy scalar."""
    if isinstance(x, (bool, np.bool_)):
        return bool(x)
    if isinstance(x, (int, np.integer)):
        return int(x)
    if isinstance(x, (complex, np.complexfloating)):
        return Cx(from_native(float(x.real), inexact=inexact), from_native(float(x.imag), inexact=inexact))
    x = float(x)
    if not math.isfinite(x):
        return Fl(x, None, False)
    lf = lift(x)
    if lf is not None:
        return Fl(x, lf, True)
    # the float nearest to 1/n (n a small integer, e.g. the 1/N normalisation JAX's fft transposition rules
    # compute in Python floats) stands for the ideal 1/n, like pi and sqrt(2) above
    if 0 < abs(x) < 0.5:
        n = round(1.0 / abs(x))
        if 3 <= n <= 1 << 20 and (n & (n - 1)) and abs(x) == 1.0 / n:
            return Fl(x, Fraction(1, n) if x > 0 else Fraction(-1, n), True)
    return Fl(x, Fraction(x), not inexact or float(x).is_integer() or _is_dyadic_small(x))


def _is_dyadic_small(x):
    fr = Fraction(x)
    return fr.denominator <= 1 << 20


def is_conc(x):
    if isinstance(x, Cx):
        return isinstance(x.re, Fl) and isinstance(x.im, Fl)
    return isinstance(x, (bool, int, Fl))


def is_sym(x):
    return not is_conc(x)


def zr(x, where=""):
    """z3 Real term for a real scalar."""
    if isinstance(x, Fl):
        if x.ex is None:
            v = CTX.freshvar("undef")
            CTX.poison.append((where, x.nat))
            return v
        if not x.ok:
            CTX.audit.append((where, x.nat))
        return x.ex if z3.is_expr(x.ex) else qv(x.ex)
    if isinstance(x, bool):
        return z3.RealVal(1 if x else 0)
    if isinstance(x, int):
        return z3.RealVal(x)
    if isinstance(x, Fraction):
        return qv(x)
    if isinstance(x, float):
        return qv(Fraction(x))
    return x


def zb(x):
    if isinstance(x, bool):
        return z3.BoolVal(x)
    return x


def _round(v, dt):
    if dt is None:
        return float(v)
    dt = np.dtype(dt)
    if dt.kind == "c":
        dt = _F32 if dt.itemsize == 8 else _F64
    if dt == _F64 or dt.kind != "f":
        return float(v)
    with np.errstate(all="ignore"):
        return float(dt.type(v))


def _exmix(a, b, f):
    """combine exact halves; f on Fractions or z3 terms"""
    if a is None or b is None:
        return None
    if isinstance(a, Fraction) and isinstance(b, Fraction):
        return f(a, b)
    return f(qv(a) if isinstance(a, Fraction) else a, qv(b) if isinstance(b, Fraction) else b)


def asfl(x):
    if isinstance(x, Fl):
        return x
    if isinstance(x, bool):
        return Fl(1.0 if x else 0.0, Fraction(int(x)))
    if isinstance(x, int):
        return Fl(float(x), Fraction(x))
    if isinstance(x, Fraction):
        return Fl(float(x), x)
    if isinstance(x, float):
        return Fl(x)
    raise TypeError(type(x))


def _c(x):
    return isinstance(x, (Fl, int, bool, Fraction, float))


# ---------------------------- real arithmetic ------------------------------


def radd(a, b, dt=None):
    if _c(a) and _c(b):
        if isinstance(a, int) and isinstance(b, int) and not isinstance(a, bool) and not isinstance(b, bool):
            return a + b
        a, b = asfl(a), asfl(b)
        with np.errstate(all="ignore"):
            nat = _round(_round(a.nat, dt) + _round(b.nat, dt), dt)
        return Fl(nat, _exmix(a.ex, b.ex, lambda x, y: x + y), a.ok and b.ok)
    if _c(a) and asfl(a).is_zero:
        return b
    if _c(b) and asfl(b).is_zero:
        return a
    return zr(a, "add") + zr(b, "add")


def rneg(a, dt=None):
    if _c(a):
        if isinstance(a, int) and not isinstance(a, bool):
            return -a
        a = asfl(a)
        return Fl(-a.nat, None if a.ex is None else -a.ex, a.ok)
    return -a


def rsub(a, b, dt=None):
    if _c(a) and _c(b):
        if isinstance(a, int) and isinstance(b, int) and not isinstance(a, bool) and not isinstance(b, bool):
            return a - b
        a, b = asfl(a), asfl(b)
        with np.errstate(all="ignore"):
            nat = _round(_round(a.nat, dt) - _round(b.nat, dt), dt)
        return Fl(nat, _exmix(a.ex, b.ex, lambda x, y: x - y), a.ok and b.ok)
    if _c(b) and asfl(b).is_zero:
        return a
    if _c(a) and asfl(a).is_zero:
        return -zr(b, "sub")
    return zr(a, "sub") - zr(b, "sub")


def rmul(a, b, dt=None):
    if _c(a) and _c(b):
        if isinstance(a, int) and isinstance(b, int) and not isinstance(a, bool) and not isinstance(b, bool):
            return a * b
        a, b = asfl(a), asfl(b)
        with np.errstate(all="ignore"):
            nat = _round(_round(a.nat, dt) * _round(b.nat, dt), dt)
        return Fl(nat, _exmix(a.ex, b.ex, lambda x, y: x * y), a.ok and b.ok)
    if _c(a):
        fa = asfl(a)
        if fa.is_zero:
            return ZERO
        if fa.is_one:
            return b
        if isinstance(fa.ex, Fraction) and fa.ex == -1:
            return -b
    if _c(b):
        fb = asfl(b)
        if fb.is_zero:
            return ZERO
        if fb.is_one:
            return a
        if isinstance(fb.ex, Fraction) and fb.ex == -1:
            return -a
    if z3.is_expr(a) and z3.is_expr(b) and a.get_id() == b.get_id():
        if a.get_id() in _ABS_OF:
            x = _ABS_OF[a.get_id()][1]
            return x * x
        if a.get_id() in _SQRT_OF:  # sqrt(X)*sqrt(X) = X (X >= 0: complex modulus, or definedness is checked separately)
            return _SQRT_OF[a.get_id()][1]
    return zr(a, "mul") * zr(b, "mul")


def rdiv(a, b, dt=None):
    if _c(a) and _c(b):
        a, b = asfl(a), asfl(b)
        with np.errstate(all="ignore"):
            nat = float(np.float64(_round(a.nat, dt)) / np.float64(_round(b.nat, dt)))
            nat = _round(nat, dt)
        if b.ex is None or a.ex is None or (isinstance(b.ex, Fraction) and b.ex == 0):
            return Fl(nat, None, False)
        return Fl(nat, _exmix(a.ex, b.ex, lambda x, y: x / y), a.ok and b.ok)
    if _c(b):
        fb = asfl(b)
        if fb.is_one:
            return a
        if fb.is_zero:
            CTX.poison.append(("div-by-concrete-zero", 0.0))
            return CTX.freshvar("undef")
        if isinstance(fb.ex, Fraction):
            return zr(a, "div") * qv(1 / fb.ex)
    if _c(a) and asfl(a).is_zero:
        CTX.divisors.append(b)
        return ZERO
    CTX.divisors.append(zr(b, "div"))
    if CTX.ack_div:
        q = CTX.freshvar("quot")
        CTX.quots.append((zr(a, "div"), zr(b, "div"), q))
        return q
    return zr(a, "div") / zr(b, "div")


def rpow_int(a, n, dt=None):
    n = int(n)
    if n == 0:
        return ONE
    if n < 0:
        return rdiv(ONE, rpow_int(a, -n, dt), dt)
    acc = a
    for _ in range(n - 1):
        acc = rmul(acc, a, dt)
    return acc


_CMP = {
    "eq": lambda x, y: x == y,
    "ne": lambda x, y: x != y,
    "lt": lambda x, y: x < y,
    "le": lambda x, y: x <= y,
    "gt": lambda x, y: x > y,
    "ge": lambda x, y: x >= y,
}


def rcmp(op, a, b):
    if _c(a) and _c(b):
        if isinstance(a, Fl) or isinstance(b, Fl):
            return bool(_CMP[op](asfl(a).nat, asfl(b).nat))
        return bool(_CMP[op](a, b))
    return _CMP[op](zr(a, "cmp"), zr(b, "cmp"))


def rabs(a, dt=None):
    if _c(a):
        if isinstance(a, int) and not isinstance(a, bool):
            return abs(a)
        a = asfl(a)
        return Fl(abs(a.nat), None if a.ex is None else (abs(a.ex) if isinstance(a.ex, Fraction) else (a.ex if a.nat >= 0 else -a.ex)), a.ok)
    t = z3.If(a >= 0, a, -a)
    _ABS_OF[t.get_id()] = (t, a)  # remember |a| so that |a|*|a| can be folded to a*a (sound, avoids 2^n case splits)
    return t


_ABS_OF = {}
_SQRT_OF = {}  # id of an Ackermannised square-root variable -> (var, radicand); filled by the interpreter


def rsign(a, dt=None):
    if _c(a):
        a = asfl(a)
        s = (a.nat > 0) - (a.nat < 0)
        return Fl(float(s), Fraction(s))
    return z3.If(a > 0, z3.RealVal(1), z3.If(a < 0, z3.RealVal(-1), z3.RealVal(0)))


def rmax(a, b, dt=None):
    if _c(a) and _c(b):
        if isinstance(a, int) and isinstance(b, int):
            return max(a, b)
        a, b = asfl(a), asfl(b)
        return a if a.nat >= b.nat else b
    A, B = zr(a, "max"), zr(b, "max")
    return z3.If(A >= B, A, B)


def rmin(a, b, dt=None):
    if _c(a) and _c(b):
        if isinstance(a, int) and isinstance(b, int):
            return min(a, b)
        a, b = asfl(a), asfl(b)
        return a if a.nat <= b.nat else b
    A, B = zr(a, "min"), zr(b, "min")
    return z3.If(A <= B, A, B)


def rsum(terms, dt=None):
    """n-ary sum (builds one z3 Sum for the symbolic part)."""
    conc = None
    symt = []
    for t in terms:
        if _c(t):
            conc = t if conc is None else radd(conc, t, dt)
        else:
            symt.append(t)
    if not symt:
        return conc if conc is not None else ZERO
    if conc is not None and not asfl(conc).is_zero:
        symt.append(zr(conc, "sum"))
    if len(symt) == 1:
        return symt[0]
    return z3.Sum(symt)


# ------------------------------- complex ----------------------------------


class Cx:
    __slots__ = ("re", "im")

    def __init__(self, re, im=ZERO):
        self.re = re
        self.im = im

    def __repr__(self):
        return f"Cx({self.re},{self.im})"


def asc(x):
    return x if isinstance(x, Cx) else Cx(x, ZERO)


def cadd(a, b, dt=None):
    return Cx(radd(a.re, b.re, dt), radd(a.im, b.im, dt))


def csub(a, b, dt=None):
    return Cx(rsub(a.re, b.re, dt), rsub(a.im, b.im, dt))


def cneg(a, dt=None):
    return Cx(rneg(a.re), rneg(a.im))


def cmul(a, b, dt=None):
    return Cx(
        rsub(rmul(a.re, b.re, dt), rmul(a.im, b.im, dt), dt),
        radd(rmul(a.re, b.im, dt), rmul(a.im, b.re, dt), dt),
    )


def cconj(a):
    return Cx(a.re, rneg(a.im))


def cabs2(a, dt=None):
    return radd(rmul(a.re, a.re, dt), rmul(a.im, a.im, dt), dt)


def cdiv(a, b, dt=None):
    if _c(b.im) and asfl(b.im).is_zero:
        return Cx(rdiv(a.re, b.re, dt), rdiv(a.im, b.re, dt))
    den = cabs2(b, dt)
    num = cmul(a, cconj(b), dt)
    return Cx(rdiv(num.re, den, dt), rdiv(num.im, den, dt))


def cscale(a, s, dt=None):
    return Cx(rmul(a.re, s, dt), rmul(a.im, s, dt))


def csum(terms, dt=None):
    return Cx(rsum([t.re for t in terms], dt), rsum([t.im for t in terms], dt))


def binop(rf, cf):
    def f(a, b, dt=None):
        if isinstance(a, Cx) or isinstance(b, Cx):
            return cf(asc(a), asc(b), dt)
        return rf(a, b, dt)

    return f


add = binop(radd, cadd)
sub = binop(rsub, csub)
mul = binop(rmul, cmul)
div = binop(rdiv, cdiv)


def neg(a, dt=None):
    return cneg(a) if isinstance(a, Cx) else rneg(a)


def pow_int(a, n, dt=None):
    n = int(n)
    if n == 0:
        return Cx(ONE, ZERO) if isinstance(a, Cx) else ONE
    if n < 0:
        one = Cx(ONE, ZERO) if isinstance(a, Cx) else ONE
        return div(one, pow_int(a, -n, dt), dt)
    acc = a
    for _ in range(n - 1):
        acc = mul(acc, a, dt)
    return acc


def ssum(terms, dt=None):
    terms = list(terms)
    if any(isinstance(t, Cx) for t in terms):
        return csum([asc(t) for t in terms], dt)
    return rsum(terms, dt)


def cmp(op, a, b):
    if isinstance(a, Cx) or isinstance(b, Cx):
        a, b = asc(a), asc(b)
        r, i = rcmp("eq", a.re, b.re), rcmp("eq", a.im, b.im)
        eq = band(r, i)
        if op == "eq":
            return eq
        if op == "ne":
            return bnot(eq)
        raise NotImplementedError("ordering on complex")
    return rcmp(op, a, b)


# ------------------------------- booleans ---------------------------------


def band(a, b):
    if isinstance(a, bool):
        return b if a else False
    if isinstance(b, bool):
        return a if b else False
    return z3.And(a, b)


def bor(a, b):
    if isinstance(a, bool):
        return True if a else b
    if isinstance(b, bool):
        return True if b else a
    return z3.Or(a, b)


def bnot(a):
    if isinstance(a, bool):
        return not a
    return z3.Not(a)


def select(c, on_false, on_true):
    """select_n semantics for a boolean predicate."""
    if isinstance(c, (bool, int)) and not z3.is_expr(c):
        return on_true if c else on_false
    a, b = on_false, on_true
    if isinstance(a, Cx) or isinstance(b, Cx):
        a, b = asc(a), asc(b)
        return Cx(_ite(c, b.re, a.re), _ite(c, b.im, a.im))
    if isinstance(a, bool) or isinstance(b, bool) or z3.is_bool(a) or z3.is_bool(b):
        return z3.If(c, zb(b), zb(a))
    return _ite(c, b, a)


def _ite(c, t, e):
    if _c(t) and _c(e):
        ft, fe = asfl(t), asfl(e)
        if isinstance(ft.ex, Fraction) and isinstance(fe.ex, Fraction) and ft.ex == fe.ex:
            return t
    # a concrete undefined arm (1/0 in the unselected branch of a where) gets a
    # fresh unconstrained value: if it can influence the result the solver will
    # use it to produce a counterexample.
    return z3.If(c, _zr_arm(t), _zr_arm(e))


def _zr_arm(x):
    if isinstance(x, Fl) and x.ex is None:
        return CTX.freshvar("undefarm")
    return zr(x, "select")


# ------------------------------- helpers ----------------------------------


def to_float(x):
    """best-effort float of a concrete scalar (for translator validation)."""
    if isinstance(x, Fl):
        return x.nat
    if isinstance(x, Cx):
        return complex(to_float(x.re), to_float(x.im))
    return x


def _exact_eq(a, b):
    """a == b on the EXACT halves (harness-level goals; the native halves are
    only for the decisions the real code takes)"""
    if _c(a) and _c(b):
        fa, fb = asfl(a), asfl(b)
        if fa.ex is None or fb.ex is None:
            return False
        if isinstance(fa.ex, Fraction) and isinstance(fb.ex, Fraction):
            return fa.ex == fb.ex
        return zr(fa) == zr(fb)
    return zr(a, "goal") == zr(b, "goal")


def equal_goal(a, b):
    """z3 Bool (or python bool) stating a == b for scalars (real or complex)."""
    if isinstance(a, (bool,)) or isinstance(b, (bool,)) or z3.is_bool(a) or z3.is_bool(b):
        return cmp("eq", a, b)
    if isinstance(a, Cx) or isinstance(b, Cx):
        a, b = asc(a), asc(b)
        return band(_exact_eq(a.re, b.re), _exact_eq(a.im, b.im))
    return _exact_eq(a, b)
