"""Exact twiddle factors cos/sin(2*pi*j/n) as scalars of vlib.sym.

n in {1,2,4}: rationals.  n in {3,6,12}: sqrt3.  n = 8: sqrt2.  n in {5,10}:
sqrt5 and t5 = sqrt(10+2*sqrt5).  Every other n: a primitive root (c1, s1)
pinned by c1^2+s1^2 = 1, a bracketing interval and (c1 + i s1)^n = 1; powers by
repeated complex multiplication (a complete characterisation: the interval
isolates exactly one n-th root of unity).
"""
from __future__ import annotations

import math
from fractions import Fraction

import z3

from . import sym
from .sym import CTX, Fl, qv

_cache = {}


def reset():
    _cache.clear()


def _fl(nat, ex):
    if isinstance(ex, (int, Fraction)):
        return Fl(nat, Fraction(ex))
    return Fl(nat, ex)


def _t5():
    r5 = sym.SQRT(5)
    return CTX.const("t5", lambda v: [v * v == 10 + 2 * r5, v > qv(Fraction(38, 10)), v < qv(Fraction(39, 10))])


def _root(n):
    ang = 2 * math.pi / n
    c, s = math.cos(ang), math.sin(ang)
    eps = Fraction(1, 10**9)
    c1 = CTX.const(f"tw{n}c", lambda v: [v > qv(Fraction(c) - eps), v < qv(Fraction(c) + eps)])
    s1 = CTX.const(f"tw{n}s", lambda v: [v > qv(Fraction(s) - eps), v < qv(Fraction(s) + eps)])
    key = f"tw{n}closure"
    if key not in CTX.consts:
        CTX.consts[key] = True
        CTX.axioms.append(c1 * c1 + s1 * s1 == 1)
        # (c1 + i s1)^n == 1
        re, im = c1, s1
        for _ in range(n - 1):
            re, im = re * c1 - im * s1, re * s1 + im * c1
        CTX.axioms.append(re == 1)
        CTX.axioms.append(im == 0)
    return c1, s1


def cs(j, n):
    """(cos, sin)(2 pi j / n) as Fl scalars (exact half may be a z3 term)."""
    g = math.gcd(j, n) if j else n
    j, n = (j // g) % (n // g), n // g
    key = (j, n)
    if key in _cache:
        return _cache[key]
    ang = 2 * math.pi * j / n
    cn, sn = math.cos(ang), math.sin(ang)
    h = Fraction(1, 2)
    if n == 1:
        out = (1, 0)
    elif n == 2:
        out = [(1, 0), (-1, 0)][j]
    elif n == 4:
        out = [(1, 0), (0, 1), (-1, 0), (0, -1)][j]
    elif n in (3, 6, 12):
        r = sym.SQRT(3) * qv(h)
        v12 = [(1, 0), (r, h), (h, r), (0, 1), (-h, r), (-r, h), (-1, 0), (-r, -h), (-h, -r), (0, -1), (h, -r), (r, -h)]
        out = v12[j * (12 // n)]
    elif n == 8:
        r = sym.SQRT(2) * qv(h)
        out = [(1, 0), (r, r), (0, 1), (-r, r), (-1, 0), (-r, -r), (0, -1), (r, -r)][j]
    elif n in (5, 10):
        r5 = sym.SQRT(5)
        t = _t5()
        q = lambda a, b: qv(Fraction(a, b))
        c72, s72 = (r5 - 1) * q(1, 4), t * q(1, 4)
        c144, s144 = (-r5 - 1) * q(1, 4), t * (r5 - 1) * q(1, 8)
        v5 = [(1, 0), (c72, s72), (c144, s144), (c144, -s144), (c72, -s72)]
        if n == 5:
            out = v5[j]
        else:
            if j % 2 == 0:
                out = v5[j // 2]
            else:
                c, s = v5[((j + 5) // 2) % 5]
                out = (-c, -s)
    else:
        c1, s1 = _root(n)
        re, im = z3.RealVal(1), z3.RealVal(0)
        for _ in range(j):
            re, im = re * c1 - im * s1, re * s1 + im * c1
        out = (re, im) if j else (1, 0)
    out = (_fl(cn, out[0]), _fl(sn, out[1]))
    _cache[key] = out
    return out
