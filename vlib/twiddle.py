"""Exact twiddle factors cos/sin(2*pi*j/n) as scalars of vlib.sym.

n in {1,2,4}: rationals.  n in {3,6,12}: sqrt3.  n = 8: sqrt2.  n in {5,10}:
sqrt5 and t5 = sqrt(10+2*sqrt5).  Every other n: a primitive root (c1, s1)
pinned by c1^2+s1^2 = 1, a bracketing interval and (c1 + i s1)^n = 1; powers by
repeated complex multiplication (a complete characterisation: the interval
isolates exactly one n-th root of unity).
"""
from __future__ import annotations

import math
from fractions import Fraction

import z3

from . import sym
from .sym import CTX, Fl, qv

_cache = {}
_chebcache = {}


def reset():
    _cache.clear()


def _fl(nat, ex):
    if isinstance(ex, (int, Fraction)):
        return Fl(nat, Fraction(ex))
    return Fl(nat, ex)


def _t5():
    r5 = sym.SQRT(5)
    return CTX.const("t5", lambda v: [v * v == 10 + 2 * r5, v > qv(Fraction(38, 10)), v < qv(Fraction(39, 10))])


_minpoly = {}


def minpoly(n):
    """coefficients (low to high, Fractions) of the minimal polynomial of cos(2 pi/n)"""
    if n not in _minpoly:
        import sympy as sp

        x = sp.Symbol("x")
        p = sp.Poly(sp.minimal_polynomial(sp.cos(2 * sp.pi / n), x), x)
        _minpoly[n] = [Fraction(int(c.p), int(c.q)) for c in reversed(p.all_coeffs())]
    return _minpoly[n]


def _polymod(a, p):
    """a mod p for coefficient lists (low to high) over Q"""
    a = list(a)
    dp = len(p) - 1
    while len(a) - 1 >= dp:
        f = a[-1] / p[-1]
        if f:
            for i in range(dp + 1):
                a[len(a) - 1 - dp + i] -= f * p[i]
        a.pop()
    return a


def _polymul(a, b):
    out = [Fraction(0)] * (len(a) + len(b) - 1)
    for i, x in enumerate(a):
        if x:
            for j, y in enumerate(b):
                out[i + j] += x * y
    return out


def _cheb(n, jmax):
    """T_j(x) mod p and U_j(x) mod p for j = 0..jmax (p = minpoly(n))"""
    p = minpoly(n)
    X = [Fraction(0), Fraction(1)]
    T = [[Fraction(1)], _polymod(X, p)]
    U = [[Fraction(1)], _polymod([Fraction(0), Fraction(2)], p)]
    for j in range(2, jmax + 1):
        for seq in (T, U):
            a = _polymul([Fraction(0), Fraction(2)], seq[j - 1])
            b = seq[j - 2]
            m = max(len(a), len(b))
            a = a + [Fraction(0)] * (m - len(a))
            b = b + [Fraction(0)] * (m - len(b))
            seq.append(_polymod([x - y for x, y in zip(a, b)], p))
    return T, U


def _root(n):
    """(c1, s1) = (cos, sin)(2 pi / n): c1 is pinned by its minimal polynomial
    and an isolating interval, s1 by s1^2 = 1 - c1^2, s1 > 0."""
    ang = 2 * math.pi / n
    c, s = math.cos(ang), math.sin(ang)
    eps = Fraction(1, 10**9)
    p = minpoly(n)

    def facts(v):
        acc = 0
        for k, a in enumerate(p):
            if a:
                t = qv(a)
                for _ in range(k):
                    t = t * v
                acc = acc + t
        return [acc == 0, v > qv(Fraction(c) - eps), v < qv(Fraction(c) + eps)]

    c1 = CTX.const(f"tw{n}c", facts)
    s1 = CTX.const(f"tw{n}s", lambda v: [v * v == 1 - c1 * c1, v > 0])
    return c1, s1


def _evalpoly(coeffs, v):
    acc = None
    pw = None
    for k, a in enumerate(coeffs):
        pw = None
        if a:
            t = qv(a)
            for _ in range(k):
                t = t * v
            acc = t if acc is None else acc + t
    return acc if acc is not None else z3.RealVal(0)


def cs(j, n):
    """(cos, sin)(2 pi j / n) as Fl scalars (exact half may be a z3 term)."""
    g = math.gcd(j, n) if j else n
    j, n = (j // g) % (n // g), n // g
    key = (j, n)
    if key in _cache:
        return _cache[key]
    ang = 2 * math.pi * j / n
    cn, sn = math.cos(ang), math.sin(ang)
    h = Fraction(1, 2)
    if n == 1:
        out = (1, 0)
    elif n == 2:
        out = [(1, 0), (-1, 0)][j]
    elif n == 4:
        out = [(1, 0), (0, 1), (-1, 0), (0, -1)][j]
    elif n in (3, 6, 12):
        r = sym.SQRT(3) * qv(h)
        v12 = [(1, 0), (r, h), (h, r), (0, 1), (-h, r), (-r, h), (-1, 0), (-r, -h), (-h, -r), (0, -1), (h, -r), (r, -h)]
        out = v12[j * (12 // n)]
    elif n == 8:
        r = sym.SQRT(2) * qv(h)
        out = [(1, 0), (r, r), (0, 1), (-r, r), (-1, 0), (-r, -r), (0, -1), (r, -r)][j]
    elif n in (5, 10):
        r5 = sym.SQRT(5)
        t = _t5()
        q = lambda a, b: qv(Fraction(a, b))
        c72, s72 = (r5 - 1) * q(1, 4), t * q(1, 4)
        c144, s144 = (-r5 - 1) * q(1, 4), t * (r5 - 1) * q(1, 8)
        v5 = [(1, 0), (c72, s72), (c144, s144), (c144, -s144), (c72, -s72)]
        if n == 5:
            out = v5[j]
        else:
            if j % 2 == 0:
                out = v5[j // 2]
            else:
                c, s = v5[((j + 5) // 2) % 5]
                out = (-c, -s)
    else:
        c1, s1 = _root(n)
        if n not in _chebcache:
            _chebcache[n] = _cheb(n, n)
        T, U = _chebcache[n]
        # cos(j t) = T_j(cos t); sin(j t) = sin t * U_{j-1}(cos t), both reduced mod minpoly
        out = (_evalpoly(T[j], c1), s1 * _evalpoly(U[j - 1], c1)) if j else (1, 0)
    out = (_fl(cn, out[0]), _fl(sn, out[1]))
    _cache[key] = out
    return out
