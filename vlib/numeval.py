"""Numeric (float / complex) evaluation of z3 real terms and sym scalars under
an assignment of the free variables.  Used for translator validation and for
replaying solver models; never a deciding step."""
from __future__ import annotations

import cmath
import math
from fractions import Fraction

import numpy as np
import z3

from .sym import CTX, Cx, Fl

_NAMED = {
    "PI": math.pi,
    "sqrt2": math.sqrt(2),
    "sqrt3": math.sqrt(3),
    "sqrt5": math.sqrt(5),
    "t5": math.sqrt(10 + 2 * math.sqrt(5)),
}


class NumEval:
    def __init__(self, values=None, ack=None):
        """values: name -> float.  ack: name -> (fname, arg scalar, part) for
        Ackermannised results (part in {'re','im',None})."""
        self.values = dict(values or {})
        self.ack = ack or {}
        self.memo = {}

    def const(self, name):
        if name in self.values:
            return self.values[name]
        if name in _NAMED:
            return _NAMED[name]
        if name.startswith("tw") and name[-1] in "cs" and name[2:-1].isdigit():
            n = int(name[2:-1])
            return math.cos(2 * math.pi / n) if name[-1] == "c" else math.sin(2 * math.pi / n)
        if name.startswith("sqrt") and name[4:].isdigit():
            return math.sqrt(int(name[4:]))
        if name in self.ack:
            fname, arg, part = self.ack[name]
            a = self.scalar(arg)
            r = _apply(fname, a)
            v = r.real if part == "re" else (r.imag if part == "im" else (r.real if isinstance(r, complex) else r))
            self.values[name] = v
            return v
        if name.startswith("undef"):
            return float("nan")
        raise KeyError(name)

    def term(self, t):
        if isinstance(t, (int, float)):
            return float(t)
        if isinstance(t, Fraction):
            return float(t)
        if isinstance(t, bool):
            return t
        # iterative post-order evaluation with memo
        stack = [t]
        memo = self.memo
        while stack:
            cur = stack[-1]
            cid = cur.get_id()
            if cid in memo:
                stack.pop()
                continue
            ch = cur.children()
            missing = [c for c in ch if c.get_id() not in memo]
            if missing:
                # short-circuit for ite: evaluate condition first
                stack.extend(missing)
                continue
            memo[cid] = self._node(cur, [memo[c.get_id()] for c in ch])
            stack.pop()
        return memo[t.get_id()]

    def _node(self, t, vs):
        k = t.decl().kind()
        if z3.is_rational_value(t):
            return t.numerator_as_long() / t.denominator_as_long()
        if z3.is_algebraic_value(t):
            a = t.approx(30)
            return a.numerator_as_long() / a.denominator_as_long()
        if k == z3.Z3_OP_UNINTERPRETED and t.num_args() == 0:
            return self.const(t.decl().name())
        if k == z3.Z3_OP_ADD:
            return sum(vs)
        if k == z3.Z3_OP_SUB:
            r = vs[0]
            for v in vs[1:]:
                r -= v
            return r
        if k == z3.Z3_OP_UMINUS:
            return -vs[0]
        if k == z3.Z3_OP_MUL:
            r = 1.0
            for v in vs:
                r *= v
            return r
        if k == z3.Z3_OP_DIV:
            return vs[0] / vs[1] if vs[1] != 0 else float("nan")
        if k == z3.Z3_OP_POWER:
            return vs[0] ** vs[1]
        if k == z3.Z3_OP_ITE:
            return vs[1] if vs[0] else vs[2]
        if k == z3.Z3_OP_TO_REAL:
            return float(vs[0])
        if k == z3.Z3_OP_TRUE:
            return True
        if k == z3.Z3_OP_FALSE:
            return False
        if k == z3.Z3_OP_EQ:
            return vs[0] == vs[1]
        if k == z3.Z3_OP_DISTINCT:
            return len(set(vs)) == len(vs)
        if k == z3.Z3_OP_LE:
            return vs[0] <= vs[1]
        if k == z3.Z3_OP_LT:
            return vs[0] < vs[1]
        if k == z3.Z3_OP_GE:
            return vs[0] >= vs[1]
        if k == z3.Z3_OP_GT:
            return vs[0] > vs[1]
        if k == z3.Z3_OP_AND:
            return all(vs)
        if k == z3.Z3_OP_OR:
            return any(vs)
        if k == z3.Z3_OP_NOT:
            return not vs[0]
        if k == z3.Z3_OP_IMPLIES:
            return (not vs[0]) or vs[1]
        if z3.is_int_value(t):
            return float(t.as_long())
        raise NotImplementedError(f"numeval: {t.decl()}")

    # ----- tolerant truth of a boolean term (replay only) -----
    def holds(self, t, tol=1e-7, strict=False, explain=None):
        """loose (default): could `t` hold if every real comparison is given the slack tol*(1+|a|+|b|)?
        strict: does it hold with that margin?  `not holds(goal)` therefore means: robustly violated.
        explain: list that receives a description of the first atom that fails (loose mode)."""
        if isinstance(t, (bool, np.bool_)):
            return bool(t)
        k = t.decl().kind()
        ch = t.children()
        if k == z3.Z3_OP_TRUE:
            return True
        if k == z3.Z3_OP_FALSE:
            return False
        if k == z3.Z3_OP_AND:
            return all(self.holds(c, tol, strict, explain) for c in ch)
        if k == z3.Z3_OP_OR:
            return any(self.holds(c, tol, strict, None) for c in ch)
        if k == z3.Z3_OP_NOT:
            return not self.holds(ch[0], tol, not strict, None)
        if k == z3.Z3_OP_IMPLIES:
            return (not self.holds(ch[0], tol, not strict, None)) or self.holds(ch[1], tol, strict, explain)
        if k == z3.Z3_OP_ITE and z3.is_bool(t):
            return self.holds(ch[1], tol, strict, explain) if self.term(ch[0]) else self.holds(ch[2], tol, strict, explain)
        if k in (z3.Z3_OP_EQ, z3.Z3_OP_LE, z3.Z3_OP_LT, z3.Z3_OP_GE, z3.Z3_OP_GT, z3.Z3_OP_DISTINCT) and len(ch) == 2 and not z3.is_bool(ch[0]):
            a, b = self.term(ch[0]), self.term(ch[1])
            if not (math.isfinite(a) and math.isfinite(b)):
                raise ArithmeticError("non-finite value at the replay point")
            slack = tol * (1.0 + abs(a) + abs(b))
            if strict:
                slack = -slack
            if k == z3.Z3_OP_EQ:
                r = (abs(a - b) <= slack) if not strict else (a == b)
            elif k == z3.Z3_OP_DISTINCT:
                r = (a != b) if not strict else (abs(a - b) > -slack)
            elif k in (z3.Z3_OP_LE, z3.Z3_OP_LT):
                r = a <= b + slack
            else:
                r = a >= b - slack
            if not r and explain is not None and not explain:
                explain.append(f"{a!r} {t.decl().name()} {b!r} fails")
            return r
        if k == z3.Z3_OP_EQ and z3.is_bool(ch[0]):
            return self.holds(ch[0], tol, strict, None) == self.holds(ch[1], tol, strict, None)
        return bool(self.term(t))

    def scalar(self, x):
        if isinstance(x, Cx):
            return complex(self.scalar(x.re), self.scalar(x.im))
        if isinstance(x, Fl):
            if x.ex is not None and not isinstance(x.ex, Fraction):
                return self.term(x.ex)
            return x.nat
        if isinstance(x, (bool, int)):
            return x
        if isinstance(x, Fraction):
            return float(x)
        return self.term(x)

    def array(self, a, dtype=None):
        a = np.asarray(a, dtype=object)
        out = np.empty(a.shape, dtype=object)
        for i in np.ndindex(a.shape):
            out[i] = self.scalar(a[i])
        if dtype is not None:
            return out.astype(dtype)
        try:
            if any(isinstance(v, complex) for v in out.reshape(-1)):
                return out.astype(complex)
            if all(isinstance(v, bool) for v in out.reshape(-1)) and out.size:
                return out.astype(bool)
            return out.astype(float)
        except (TypeError, ValueError):
            return out


def _apply(fname, a):
    try:
        return _apply0(fname, a)
    except OverflowError:
        return float("inf")


def _apply0(fname, a):
    if fname == "exp":
        return cmath.exp(a) if isinstance(a, complex) else math.exp(a)
    if fname == "sin":
        return cmath.sin(a) if isinstance(a, complex) else math.sin(a)
    if fname == "cos":
        return cmath.cos(a) if isinstance(a, complex) else math.cos(a)
    if fname == "log":
        return cmath.log(a) if isinstance(a, complex) else (math.log(a) if a > 0 else float("nan"))
    if fname == "tanh":
        return cmath.tanh(a) if isinstance(a, complex) else math.tanh(a)
    if fname == "sqrt":
        return math.sqrt(a) if a >= 0 else float("nan")
    if fname == "csqrt":
        return cmath.sqrt(a)
    raise NotImplementedError(fname)


def free_vars(arrs):
    """names of the z3 uninterpreted constants occurring in sym-scalar arrays"""
    names = {}
    seen = set()

    def visit(t):
        stack = [t]
        while stack:
            c = stack.pop()
            i = c.get_id()
            if i in seen:
                continue
            seen.add(i)
            if c.num_args() == 0 and c.decl().kind() == z3.Z3_OP_UNINTERPRETED:
                if c.decl().name() not in CTX.consts:  # PI, sqrt3, twiddle roots are constants, not inputs
                    names[c.decl().name()] = c
            stack.extend(c.children())

    def sc(x):
        if isinstance(x, Cx):
            sc(x.re)
            sc(x.im)
        elif isinstance(x, Fl):
            if x.ex is not None and not isinstance(x.ex, Fraction):
                visit(x.ex)
        elif z3.is_expr(x):
            visit(x)

    for a in arrs:
        a = np.asarray(a, dtype=object)
        for v in a.reshape(-1):
            sc(v)
    return names
