"""Tracing + encoding + translator validation + per-component obligations for
harnesses of the form  real_code(inputs) == oracle(inputs)."""
from __future__ import annotations

import random
import zlib
from fractions import Fraction

import numpy as np
import z3

import jax
import jax.numpy as jnp

from . import sym
from . import harness as _harness
from .harness import HarnessError, log
from .jx2smt import Interp, symarray
from .numeval import NumEval, free_vars
from .sym import Cx, Fl


class In:
    """one abstract input of a traced harness"""

    def __init__(self, name, shape=(), kind="real", sym_arr=None, lo=-1.0, hi=1.0, dtype=None):
        self.name = name
        self.shape = tuple(shape)
        self.kind = kind
        self.lo, self.hi = lo, hi
        if sym_arr is None:
            sym_arr = symarray(name, self.shape, complex_=(kind == "complex"))
        if not isinstance(sym_arr, np.ndarray):  # a bare scalar for shape ()
            a = np.empty((), dtype=object)
            a[()] = sym_arr
            sym_arr = a
        self.sym = sym_arr
        if dtype is None:
            dtype = {"real": jnp.float64, "complex": jnp.complex128, "int": jnp.int32}[kind]
        self.dtype = dtype

    def example(self):
        return jnp.zeros(self.shape, self.dtype)

    @property
    def s(self):
        """the scalar (for shape ()) or the array"""
        return self.sym[()] if self.shape == () else self.sym


REGISTRY = []  # every Encoded of the running check (for the generic replay)


def _names(t):
    out, seen, stack = set(), set(), [t]
    while stack:
        c = stack.pop()
        if not z3.is_expr(c):
            continue
        i = c.get_id()
        if i in seen:
            continue
        seen.add(i)
        if c.num_args() == 0 and c.decl().kind() == z3.Z3_OP_UNINTERPRETED:
            out.add(c.decl().name())
        stack.extend(c.children())
    return out


def _definitional_ids():
    ids = {ax.get_id() for ax in sym.CTX.defs.values()}
    for e in REGISTRY:
        ids |= {f.get_id() for f in e.interp.sound_facts()}
    return ids


def goal_replay(goal, assumptions=(), encs=None, tol=1e-6, npoints=12, label=""):
    """generic replay of a `sat` answer: (1) concrete points -- the model's, then fixed pseudo-random ones inside the
    declared input ranges that satisfy the assumptions; (2) the REAL function of every encoding the goal mentions is
    run at the point and must agree with the encoding there (translator validation at the counterexample);
    (3) the goal, evaluated on those values with a relative slack, must be robustly false."""

    def replay(model):
        gn = _names(goal) if z3.is_expr(goal) else set()
        if encs is not None:
            cand = encs
        else:
            world = lambda e: set(e.vars) | set(e.interp.ackdefs) | set(e.uf_syms)
            named = {n for n in gn if not (n in sym.CTX.consts or n.startswith("tw") or n.startswith("sqrt") or n == "PI")}
            # encodings that explain EVERY symbol of the goal on their own (other parts of a check often re-use input symbol
            # names for arrays of other shapes); if the goal spans several encodings, all that share a symbol with it
            cand = [e for e in REGISTRY if named and named <= world(e)] or [e for e in REGISTRY if gn & world(e)]
        if not z3.is_expr(goal):
            if bool(goal):
                return {"reproduced": False, "detail": "goal is concretely true"}
            # a concretely false goal is a fact about the traced program, not yet about behaviour: it needs its own
            # semantic replay (every such obligation in checks/ has one); the generic replay never confirms it
            return {"reproduced": False, "detail": f"concrete mismatch in the program traced from the real code, no semantic replay attached{': ' + label if label else ''}"}
        if not cand:
            return {"reproduced": False, "detail": "no encoding of real code is attached to this obligation (opaque symbols only)"}
        ack, ranges, allvars = {}, {}, set()
        for e in cand:
            ack.update(e.interp.ackdefs)
            ranges.update(e.ranges)
            allvars |= set(e.vars) | set(e.uf_syms)
        unknown = gn - allvars - set(ack) - set(sym.CTX.consts)
        unknown = {n for n in unknown if not (n.startswith("tw") or n.startswith("sqrt") or n == "PI")}
        if unknown:
            return {"reproduced": False, "detail": f"goal mentions symbols without a concrete meaning: {sorted(unknown)[:5]}"}
        rng = random.Random(zlib.crc32(label.encode()) if label else 7)
        points = []
        base = {nm: 0.37 + 0.11 * (zlib.crc32(nm.encode()) % 10) for nm in allvars}
        for nm in allvars:
            lo, hi = ranges.get(nm, (-1.0, 1.0))
            if not (lo <= base[nm] <= hi):
                base[nm] = lo + (hi - lo) * (0.3 + 0.05 * (zlib.crc32(nm.encode()) % 10))
        p0 = dict(base)
        for k, v in model.items():
            if isinstance(v, Fraction) and k in allvars:
                p0[k] = float(v)
        if model:
            points.append(("the solver's model", p0))
        points.append(("a fixed generic point", base))
        for j in range(npoints if model else min(npoints, 3)):  # probe mode (no model): the generic point and three more
            points.append((f"pseudo-random point {j}", {nm: ranges.get(nm, (-1.0, 1.0))[0] + (ranges.get(nm, (-1.0, 1.0))[1] - ranges.get(nm, (-1.0, 1.0))[0]) * rng.random() for nm in sorted(allvars)}))
        tried = []
        for what, vals in points:
            ne = NumEval(dict(vals), ack=ack)
            try:
                ok = True
                for a in assumptions:
                    if z3.is_expr(a) and (_names(a) - allvars - set(ack) - set(sym.CTX.consts)):
                        if a.get_id() in _definitional_ids():
                            continue  # defining fact of a square root that this goal does not mention
                        if not (_names(a) & (allvars | set(ack))):
                            continue  # entirely about symbols of other encodings (e.g. ranges of draws this goal does not use)
                        raise KeyError("an assumption mentions symbols without a concrete meaning here")
                    if not ne.holds(a, 1e-7):
                        ok = False
                        break
                if not ok:
                    tried.append(f"{what}: outside the assumptions")
                    continue
                validated = 0
                for e in cand:
                    try:
                        real, _ = e.real_outputs({k: v for k, v in vals.items() if k in e.vars or k in e.uf_syms})
                    except (ArithmeticError, KeyError):
                        raise
                    except Exception:
                        # an encoding that merely shares symbol names with the goal (another part of the check re-used the
                        # input symbols) and cannot be run at this point is not evidence either way: skip it
                        continue
                    if len(real) != len(e.outs) or any(tuple(np.shape(r)) != tuple(o.shape) for r, o in zip(real, e.outs)):
                        continue  # not the program this encoding was made from (symbol names re-used)
                    validated += 1
                    ne_e = NumEval({k: v for k, v in vals.items()}, ack=e.interp.ackdefs)
                    for r, o in zip(real, e.outs):
                        idxs = list(np.ndindex(o.shape))
                        if len(idxs) > 60:
                            idxs = rng.sample(idxs, 60)
                        scale = 1.0 + float(np.max(np.abs(np.where(np.isfinite(r), r, 0)))) if r.size else 1.0
                        for i in idxs:
                            cv, rv = ne_e.scalar(o[i]), (r[i].item() if hasattr(r[i], "item") else r[i])
                            if isinstance(cv, bool) or isinstance(rv, bool):
                                agree = bool(cv) == bool(rv)
                            elif not (np.isfinite(complex(cv)) and np.isfinite(complex(rv))):
                                raise ArithmeticError("non-finite output of the real code at the replay point")
                            else:
                                agree = abs(complex(cv) - complex(rv)) <= 1e-7 * scale
                            if not agree:
                                return {"reproduced": False, "detail": f"encoding #{REGISTRY.index(e) if e in REGISTRY else '?'} ({len(e.interp.uf_calls)} opaque calls, inputs {[i_.name for i_ in e.ins]}) and real code disagree at {what} (output component {i}: {cv} vs {rv})"}
                if not validated:
                    tried.append(f"{what}: no encoding could be re-run on the real code")
                    continue
                why = []
                if not ne.holds(goal, tol, explain=why):
                    return {"reproduced": True, "detail": f"{label + ': ' if label else ''}at {what} the real code was run and agrees with its encoding; the stated relation fails there: {'; '.join(why) or 'disjunction false'}",
                            "inputs": {k: vals[k] for k in sorted(vals)[:40]}}
                tried.append(f"{what}: relation holds")
            except (ArithmeticError, KeyError, NotImplementedError, ZeroDivisionError, OverflowError) as ex_:
                tried.append(f"{what}: {type(ex_).__name__} {ex_}")
        return {"reproduced": False, "detail": "; ".join(tried)[:600]}

    return replay


class Encoded:
    def __init__(self, real_fn, ins, tag="", closed=None, uf_hook=None):
        REGISTRY.append(self)
        self.real_fn = real_fn
        self.ins = ins
        if closed is None:
            closed, out_shape = jax.make_jaxpr(real_fn, return_shape=True)(*[i.example() for i in ins])
            self.out_tree = jax.tree_util.tree_structure(out_shape)
        self.closed = closed
        self.interp = Interp(tag)
        self.interp.uf_hook = uf_hook
        self.outs = self.interp.run(self.closed, *[i.sym for i in ins])
        self.vars = free_vars([i.sym for i in ins])
        self.ranges = {}
        for i in ins:
            for nm in free_vars([i.sym]):
                self.ranges[nm] = (i.lo, i.hi)

    def clone_with(self, ins, tag="", uf_hook=None):
        """same traced program, other symbolic inputs (same shapes)"""
        return Encoded(self.real_fn, ins, tag=tag, closed=self.closed, uf_hook=uf_hook)

    # ----- concrete side -----
    def concrete_inputs(self, values):
        ne = NumEval(values, ack=self.interp.ackdefs)
        out = []
        for i in self.ins:
            a = ne.array(i.sym, dtype=complex if i.kind == "complex" else float)
            out.append(jnp.asarray(a, dtype=i.dtype))
        return out, ne

    @property
    def uf_syms(self):
        """free symbols standing for results of opaque calls (own or, for a related run, the base run's)"""
        return {k: v for k, v in free_vars([o for c in self.interp.uf_calls for o in c[2]]).items() if k not in self.vars}

    def real_outputs(self, values):
        cin, ne = self.concrete_inputs(values)
        from . import jx2smt as _j

        del _j.UF_PLAYBACK[:]
        for _nm, _ins, outs in self.interp.uf_calls:  # opaque calls return the values the assignment gives their result symbols
            _j.UF_PLAYBACK.append([ne.array(o, dtype=complex if any(isinstance(x, Cx) for x in np.asarray(o, dtype=object).reshape(-1)) else float) for o in outs])
        try:
            res = self.real_fn(*cin)
        finally:
            del _j.UF_PLAYBACK[:]
        flat = jax.tree_util.tree_leaves(res)
        return [np.asarray(r) for r in flat], ne

    def random_values(self, rng):
        vals = {}
        for nm in sorted(self.vars):
            lo, hi = self.ranges.get(nm, (-1.0, 1.0))
            q = rng.randint(0, 256)
            vals[nm] = lo + (hi - lo) * q / 256.0
            if vals[nm] == 0.0:
                vals[nm] = lo + (hi - lo) * 77 / 256.0
        return vals

    def validate(self, check, npoints=1, rng=None, max_components=40, tol=1e-8, what=""):
        """translator validation: encoding evaluated at random points vs. the
        real function.  A mismatch is a harness error, never a violation."""
        rng = rng or random.Random(check.seed + 12345)
        for _ in range(npoints):
            vals = self.random_values(rng)
            real, ne = self.real_outputs(vals)
            for k, (r, o) in enumerate(zip(real, self.outs)):
                idxs = list(np.ndindex(o.shape))
                if len(idxs) > max_components:
                    idxs = rng.sample(idxs, max_components)
                scale = 1.0 + float(np.max(np.abs(np.where(np.isfinite(r), r, 0)))) if r.size else 1.0
                for i in idxs:
                    cv = ne.scalar(o[i])
                    rv = r[i].item() if hasattr(r[i], "item") else r[i]
                    if isinstance(cv, bool) or isinstance(rv, bool):
                        ok = bool(cv) == bool(rv)
                    elif not (np.isfinite(complex(cv)) and np.isfinite(complex(rv))):
                        ok = True  # overflow at the random point: nothing to compare
                    else:
                        ok = abs(complex(cv) - complex(rv)) <= tol * scale
                    if not ok:
                        if self.interp.narrowing:
                            # the real code rounds input-dependent data to a narrower float type in this (x64) session: the
                            # deviation from the exact encoding is that rounding -- a violation of every "to rounding" claim
                            pt = dict(vals)

                            def replay(model, self=self, pt=pt, k=k, i=i, tol=tol):
                                real2, ne2 = self.real_outputs(pt)
                                rv2 = complex(real2[k][i])
                                cv2 = complex(ne2.scalar(self.outs[k][i]))
                                e2 = abs(rv2 - cv2) / (1.0 + abs(cv2))
                                return {"reproduced": e2 > 1e-10, "detail": f"x64 session: the code converts input-dependent data {self.interp.narrowing[0][0]} -> {self.interp.narrowing[0][1]}; result {rv2} vs exact evaluation {cv2} (relative deviation {e2:.3g}, float64 rounding would give ~1e-16)", "inputs": pt}

                            check.add(f"{what}/precision-narrowing/{k}_{'_'.join(map(str, i))}", False, [], family="no precision-narrowing conversion on the float64 data path", replay=replay)
                            return
                        raise HarnessError(f"translator validation failed {what} output {k}{i}: encoding {cv} vs real {rv}")
            check.validated += 1

    # ----- obligations -----
    def replay_eq(self, out_index, comp, oracle_scalar, tol=1e-7, extra_vals=None):
        def replay(model):
            # variables the model leaves unconstrained get fixed generic non-zero values
            vals = {nm: 0.37 + 0.11 * (zlib.crc32(nm.encode()) % 10) for nm in self.vars}
            if extra_vals:
                vals.update(extra_vals)
            for k, v in model.items():
                if isinstance(v, Fraction):
                    vals[k] = float(v)
            # keep only free inputs (drop Ackermann results: they are recomputed with the true functions)
            vals = {k: v for k, v in vals.items() if k not in self.interp.ackdefs}
            real, ne = self.real_outputs(vals)
            rv = complex(real[out_index][comp])
            ov = complex(ne.scalar(oracle_scalar))
            scale = 1.0 + max(abs(rv), abs(ov))
            bad = not (abs(rv - ov) <= tol * scale)
            return {
                "reproduced": bool(bad),
                "detail": f"real code gives {rv}, documented value {ov} at component {comp} of output {out_index}",
                "inputs": {k: v for k, v in vals.items() if k in self.vars},
                "real": [rv.real, rv.imag],
                "expected": [ov.real, ov.imag],
            }

        return replay

    def compare(self, check, prefix, out_index, oracle_arr, assumptions=(), family=None, select=None, twin=None, timeout=None, stretch=False, meta=None, tol=1e-7):
        """one obligation per component: code == oracle."""
        code = self.outs[out_index]
        oracle_arr = np.asarray(oracle_arr, dtype=object)
        if code.shape != oracle_arr.shape:
            raise HarnessError(f"{prefix}: code output shape {code.shape} vs oracle {oracle_arr.shape}")
        facts = list(assumptions) + self.interp.sound_facts()
        n = 0
        for i in np.ndindex(code.shape):
            if select is not None and not select(i):
                continue
            goal = sym.equal_goal(code[i], oracle_arr[i])
            check.add(
                f"{prefix}/{'_'.join(map(str, i))}",
                goal,
                facts,
                family=family or prefix,
                replay=self.replay_eq(out_index, i, oracle_arr[i], tol=tol),
                timeout=timeout,
                stretch=stretch,
                meta=meta,
            )
            n += 1
        return n


_harness.DEFAULT_REPLAY = lambda o: goal_replay(o.goal, o.assumptions, label=o.family)
