"""Tracing + encoding + translator validation + per-component obligations for
harnesses of the form  real_code(inputs) == oracle(inputs)."""
from __future__ import annotations

import random
import zlib
from fractions import Fraction

import numpy as np
import z3

import jax
import jax.numpy as jnp

from . import sym
from .harness import HarnessError, log
from .jx2smt import Interp, symarray
from .numeval import NumEval, free_vars
from .sym import Cx, Fl


class In:
    """one abstract input of a traced harness"""

    def __init__(self, name, shape=(), kind="real", sym_arr=None, lo=-1.0, hi=1.0, dtype=None):
        self.name = name
        self.shape = tuple(shape)
        self.kind = kind
        self.lo, self.hi = lo, hi
        if sym_arr is None:
            sym_arr = symarray(name, self.shape, complex_=(kind == "complex"))
        if not isinstance(sym_arr, np.ndarray):  # a bare scalar for shape ()
            a = np.empty((), dtype=object)
            a[()] = sym_arr
            sym_arr = a
        self.sym = sym_arr
        if dtype is None:
            dtype = {"real": jnp.float64, "complex": jnp.complex128, "int": jnp.int32}[kind]
        self.dtype = dtype

    def example(self):
        return jnp.zeros(self.shape, self.dtype)

    @property
    def s(self):
        """the scalar (for shape ()) or the array"""
        return self.sym[()] if self.shape == () else self.sym


class Encoded:
    def __init__(self, real_fn, ins, tag="", closed=None, uf_hook=None):
        self.real_fn = real_fn
        self.ins = ins
        if closed is None:
            closed, out_shape = jax.make_jaxpr(real_fn, return_shape=True)(*[i.example() for i in ins])
            self.out_tree = jax.tree_util.tree_structure(out_shape)
        self.closed = closed
        self.interp = Interp(tag)
        self.interp.uf_hook = uf_hook
        self.outs = self.interp.run(self.closed, *[i.sym for i in ins])
        self.vars = free_vars([i.sym for i in ins])
        self.ranges = {}
        for i in ins:
            for nm in free_vars([i.sym]):
                self.ranges[nm] = (i.lo, i.hi)

    def clone_with(self, ins, tag="", uf_hook=None):
        """same traced program, other symbolic inputs (same shapes)"""
        return Encoded(self.real_fn, ins, tag=tag, closed=self.closed, uf_hook=uf_hook)

    # ----- concrete side -----
    def concrete_inputs(self, values):
        ne = NumEval(values, ack=self.interp.ackdefs)
        out = []
        for i in self.ins:
            a = ne.array(i.sym, dtype=complex if i.kind == "complex" else float)
            out.append(jnp.asarray(a, dtype=i.dtype))
        return out, ne

    def real_outputs(self, values):
        cin, ne = self.concrete_inputs(values)
        res = self.real_fn(*cin)
        flat = jax.tree_util.tree_leaves(res)
        return [np.asarray(r) for r in flat], ne

    def random_values(self, rng):
        vals = {}
        for nm in sorted(self.vars):
            lo, hi = self.ranges.get(nm, (-1.0, 1.0))
            q = rng.randint(0, 256)
            vals[nm] = lo + (hi - lo) * q / 256.0
            if vals[nm] == 0.0:
                vals[nm] = lo + (hi - lo) * 77 / 256.0
        return vals

    def validate(self, check, npoints=1, rng=None, max_components=40, tol=1e-8, what=""):
        """translator validation: encoding evaluated at random points vs. the
        real function.  A mismatch is a harness error, never a violation."""
        rng = rng or random.Random(check.seed + 12345)
        for _ in range(npoints):
            vals = self.random_values(rng)
            real, ne = self.real_outputs(vals)
            for k, (r, o) in enumerate(zip(real, self.outs)):
                idxs = list(np.ndindex(o.shape))
                if len(idxs) > max_components:
                    idxs = rng.sample(idxs, max_components)
                scale = 1.0 + float(np.max(np.abs(np.where(np.isfinite(r), r, 0)))) if r.size else 1.0
                for i in idxs:
                    cv = ne.scalar(o[i])
                    rv = r[i].item() if hasattr(r[i], "item") else r[i]
                    if isinstance(cv, bool) or isinstance(rv, bool):
                        ok = bool(cv) == bool(rv)
                    elif not (np.isfinite(complex(cv)) and np.isfinite(complex(rv))):
                        ok = True  # overflow at the random point: nothing to compare
                    else:
                        ok = abs(complex(cv) - complex(rv)) <= tol * scale
                    if not ok:
                        raise HarnessError(f"translator validation failed {what} output {k}{i}: encoding {cv} vs real {rv}")
            check.validated += 1

    # ----- obligations -----
    def replay_eq(self, out_index, comp, oracle_scalar, tol=1e-7, extra_vals=None):
        def replay(model):
            # variables the model leaves unconstrained get fixed generic non-zero values
            vals = {nm: 0.37 + 0.11 * (zlib.crc32(nm.encode()) % 10) for nm in self.vars}
            if extra_vals:
                vals.update(extra_vals)
            for k, v in model.items():
                if isinstance(v, Fraction):
                    vals[k] = float(v)
            # keep only free inputs (drop Ackermann results: they are recomputed with the true functions)
            vals = {k: v for k, v in vals.items() if k not in self.interp.ackdefs}
            real, ne = self.real_outputs(vals)
            rv = complex(real[out_index][comp])
            ov = complex(ne.scalar(oracle_scalar))
            scale = 1.0 + max(abs(rv), abs(ov))
            bad = not (abs(rv - ov) <= tol * scale)
            return {
                "reproduced": bool(bad),
                "detail": f"real code gives {rv}, documented value {ov} at component {comp} of output {out_index}",
                "inputs": {k: v for k, v in vals.items() if k in self.vars},
                "real": [rv.real, rv.imag],
                "expected": [ov.real, ov.imag],
            }

        return replay

    def compare(self, check, prefix, out_index, oracle_arr, assumptions=(), family=None, select=None, twin=None, timeout=None, stretch=False, meta=None, tol=1e-7):
        """one obligation per component: code == oracle."""
        code = self.outs[out_index]
        oracle_arr = np.asarray(oracle_arr, dtype=object)
        if code.shape != oracle_arr.shape:
            raise HarnessError(f"{prefix}: code output shape {code.shape} vs oracle {oracle_arr.shape}")
        facts = list(assumptions) + self.interp.sound_facts()
        n = 0
        for i in np.ndindex(code.shape):
            if select is not None and not select(i):
                continue
            goal = sym.equal_goal(code[i], oracle_arr[i])
            check.add(
                f"{prefix}/{'_'.join(map(str, i))}",
                goal,
                facts,
                family=family or prefix,
                replay=self.replay_eq(out_index, i, oracle_arr[i], tol=tol),
                timeout=timeout,
                stretch=stretch,
                meta=meta,
            )
            n += 1
        return n
