"""E2: scalar integer/float kernels with symbolic N, extracted from the Python
AST of the current exponax source and translated to QF_BVFP.

Only the few statement shapes that occur in the kernels are supported; any
other shape raises ``OutOfDate`` (reported as a harness error: the encoding no
longer matches the code -- never a pass, never a violation).

JAX's semantics for the library calls are part of the model (and are
validated on every run by a sweep of the real functions):
  rfftfreq(n, d) = arange(n//2+1, dtype) / array(d*n, dtype)   (d*n in Python doubles)
  fftfreq(n, d)  = ((arange(n)+n//2) % n - n//2) / array(d*n, dtype)
  arange / integer arithmetic on integer-valued floats below 2^24 is exact
  `array <= python_float` compares in the array dtype after rounding the
  scalar to that dtype (weak typing).
"""
from __future__ import annotations

import ast
import inspect
import struct
import textwrap

import numpy as np

NMAX = 4096
BW = 32  # bit width for integers (no overflow for N <= 4096)


class OutOfDate(Exception):
    pass


def _f64_bits(x):
    b = struct.unpack(">Q", struct.pack(">d", float(x)))[0]
    s = b >> 63
    e = (b >> 52) & 0x7FF
    m = b & ((1 << 52) - 1)
    return f"(fp #b{s} #b{e:011b} #b{m:052b})"


FP = {"f64": "(_ FloatingPoint 11 53)", "f32": "(_ FloatingPoint 8 24)"}
TOFP = {"f64": "(_ to_fp 11 53)", "f32": "(_ to_fp 8 24)"}
TOFPU = {"f64": "(_ to_fp_unsigned 11 53)", "f32": "(_ to_fp_unsigned 8 24)"}


def bv(n):
    return f"(_ bv{int(n)} {BW})"


class V:
    """typed SMT value: kind in {'int','f64'}"""

    def __init__(self, kind, s):
        self.kind, self.s = kind, s


def _tof64(v):
    if v.kind == "f64":
        return v.s
    return f"({TOFP['f64']} RNE {v.s})"  # signed bit-vector -> double


def py_expr(node, env):
    """Python scalar expression -> typed SMT term (Python semantics: ints are
    mathematical within the bound, floats are IEEE doubles)"""
    if isinstance(node, ast.Constant):
        if isinstance(node.value, bool):
            raise OutOfDate("bool constant")
        if isinstance(node.value, int):
            return V("int", bv(node.value))
        if isinstance(node.value, float):
            return V("f64", _f64_bits(node.value))
        raise OutOfDate(f"constant {node.value!r}")
    if isinstance(node, ast.Name):
        if node.id not in env:
            raise OutOfDate(f"unbound name {node.id}")
        return env[node.id]
    if isinstance(node, ast.UnaryOp) and isinstance(node.op, ast.USub):
        v = py_expr(node.operand, env)
        return V("int", f"(bvneg {v.s})") if v.kind == "int" else V("f64", f"(fp.neg {v.s})")
    if isinstance(node, ast.BinOp):
        a, b = py_expr(node.left, env), py_expr(node.right, env)
        op = type(node.op)
        if a.kind == "int" and b.kind == "int" and op is not ast.Div:
            f = {ast.Add: "bvadd", ast.Sub: "bvsub", ast.Mult: "bvmul", ast.FloorDiv: "bvudiv", ast.Mod: "bvurem"}.get(op)
            if f is None:
                raise OutOfDate(f"int op {op}")
            # // and % are only used on non-negative operands in these kernels (checked by validation sweep)
            return V("int", f"({f} {a.s} {b.s})")
        f = {ast.Add: "fp.add", ast.Sub: "fp.sub", ast.Mult: "fp.mul", ast.Div: "fp.div"}.get(op)
        if f is None:
            raise OutOfDate(f"float op {op}")
        return V("f64", f"({f} RNE {_tof64(a)} {_tof64(b)})")
    raise OutOfDate(f"expression {ast.dump(node)[:80]}")


def _src_ast(fn):
    return ast.parse(textwrap.dedent(inspect.getsource(fn)))


def _find_assign(tree, name):
    hits = [n for n in ast.walk(tree) if isinstance(n, ast.Assign) and len(n.targets) == 1 and isinstance(n.targets[0], ast.Name) and n.targets[0].id == name]
    if len(hits) != 1:
        raise OutOfDate(f"expected exactly one assignment to {name}, found {len(hits)}")
    return hits[0].value


def _stmts_in_order(body):
    for st in body:
        yield st
        for fld in ("body", "orelse"):
            sub = getattr(st, fld, None)
            if isinstance(sub, list) and not isinstance(st, (ast.FunctionDef, ast.ClassDef)):
                yield from _stmts_in_order(sub)


def _straight_line(tree, env):
    """evaluate every `name = <scalar expression>` of the function body in source order
    (whatever the names are); statements that are not scalar arithmetic are skipped"""
    fdef = tree.body[0]
    for st in _stmts_in_order(fdef.body):
        if isinstance(st, ast.Assign) and len(st.targets) == 1 and isinstance(st.targets[0], ast.Name):
            try:
                env[st.targets[0].id] = py_expr(st.value, env)
            except OutOfDate:
                pass


def _locals(tree):
    """name -> value AST of every simple assignment (array-valued intermediates of the layout kernels)"""
    out = {}
    for st in _stmts_in_order(tree.body[0].body):
        if isinstance(st, ast.Assign) and len(st.targets) == 1 and isinstance(st.targets[0], ast.Name):
            out[st.targets[0].id] = st.value
    return out


def _attr_chain(node):
    parts = []
    while isinstance(node, ast.Attribute):
        parts.append(node.attr)
        node = node.value
    if isinstance(node, ast.Name):
        parts.append(node.id)
    return ".".join(reversed(parts))


# ---------------------------------------------------------------------------
# wavenumber kernels
# ---------------------------------------------------------------------------


def wavenumber_element(expr, env, j, dtype, full_axis, local=None):
    """SMT term (FloatingPoint of `dtype`) for element j of the 1-D wavenumber
    array built by `expr` (AST), plus the documented integer (as signed BV)."""
    local = local or {}
    N = env["num_points"].s
    half = f"(bvudiv {N} {bv(2)})"
    if full_axis:
        doc = f"(bvsub (bvurem (bvadd {j} {half}) {N}) {half})"
    else:
        doc = j
    if isinstance(expr, ast.Call):
        fn = _attr_chain(expr.func)
        if fn in ("jnp.fft.rfftfreq", "jnp.fft.fftfreq"):
            if (fn == "jnp.fft.fftfreq") != full_axis:
                raise OutOfDate(f"{fn} used for the {'full' if full_axis else 'half'} axis")
            if len(expr.args) == 1:
                raise OutOfDate("freq call without spacing: model not written")
            n_arg = py_expr(expr.args[0], env)
            d = py_expr(expr.args[1], env)
            dn = f"(fp.mul RNE {_tof64(d)} {_tof64(n_arg)})"  # Python double product
            dn_t = dn if dtype == "f64" else f"({TOFP['f32']} RNE {dn})"
            k_t = f"({TOFP[dtype]} RNE {doc})"
            return f"(fp.div RNE {k_t} {dn_t})", doc
        if fn in ("jnp.arange",):
            if full_axis:
                raise OutOfDate("arange alone cannot be the full axis")
            return f"({TOFP[dtype]} RNE {j})", doc
    # integer layout expressions such as (jnp.arange(n) + n//2) % n - n//2, optionally .astype(...)
    def int_elem(node):
        if isinstance(node, ast.Call) and _attr_chain(node.func) == "jnp.arange":
            return j
        if isinstance(node, ast.Call) and isinstance(node.func, ast.Attribute) and node.func.attr == "astype":
            return int_elem(node.func.value)
        if isinstance(node, ast.BinOp):
            f = {ast.Add: "bvadd", ast.Sub: "bvsub", ast.Mod: "bvurem", ast.FloorDiv: "bvudiv", ast.Mult: "bvmul"}.get(type(node.op))
            if f is None:
                raise OutOfDate("layout op")
            return f"({f} {int_elem(node.left)} {int_elem(node.right)})"
        if isinstance(node, ast.UnaryOp) and isinstance(node.op, ast.USub):
            return f"(bvneg {int_elem(node.operand)})"
        if isinstance(node, ast.Call) and _attr_chain(node.func) in ("jnp.where", "jnp.select"):
            c, a, b = node.args
            return f"(ite {int_cond(c)} {int_elem(a)} {int_elem(b)})"
        if isinstance(node, ast.Name) and node.id in local:
            return int_elem(local[node.id])
        return py_expr(node, env).s

    def int_cond(node):
        if isinstance(node, ast.Compare) and len(node.ops) == 1:
            f = {ast.Lt: "bvslt", ast.LtE: "bvsle", ast.Gt: "bvsgt", ast.GtE: "bvsge", ast.Eq: "=", ast.NotEq: "distinct"}.get(type(node.ops[0]))
            if f is None:
                raise OutOfDate("layout comparison")
            return f"({f} {int_elem(node.left)} {int_elem(node.comparators[0])})"
        if isinstance(node, ast.BinOp) and isinstance(node.op, (ast.BitAnd, ast.BitOr)):
            return f"({'and' if isinstance(node.op, ast.BitAnd) else 'or'} {int_cond(node.left)} {int_cond(node.right)})"
        raise OutOfDate("layout condition")

    return f"({TOFP[dtype]} RNE {int_elem(expr)})", doc


def header(extra=""):
    return "(set-logic QF_BVFP)\n" + f"(declare-const N (_ BitVec {BW}))\n(declare-const j (_ BitVec {BW}))\n" + f"(assert (bvuge N {bv(1)}))\n(assert (bvule N {bv(NMAX)}))\n" + extra


def wavenumber_queries(ex):
    """[(name, smt2 text, meta)]: exists N<=NMAX, j: stored wavenumber != documented integer"""
    tree = _src_ast(ex.spectral.build_wavenumbers)
    out = []
    env = {"num_points": V("int", "N")}
    for var, full in (("right_most_wavenumbers", False), ("other_wavenumbers", True)):
        expr = _find_assign(tree, var)
        for dtype in ("f32", "f64"):
            w, doc = wavenumber_element(expr, env, "j", dtype, full, _locals(tree))
            rng = f"(assert (bvult j N))\n" if full else f"(assert (bvule j (bvudiv N {bv(2)})))\n"
            txt = header(rng) + f"(assert (not (fp.eq {w} ({TOFP[dtype]} RNE {doc}))))\n(check-sat)\n(get-value (N j))\n"
            out.append((f"wavenumber-exact/{'fftfreq' if full else 'rfftfreq'}/{dtype}", txt, {"dtype": dtype, "full": full, "src": ast.unparse(expr)}))
    return out


# ---------------------------------------------------------------------------
# dealiasing cut-off
# ---------------------------------------------------------------------------


def cutoff_queries(ex, fraction_value, num, den, power):
    """float decision |k| <= cutoff  <=>  den*(k+1) <= num*(N//2); and (power+1)*k < N on the retained band"""
    tree = _src_ast(ex.nonlin_fun.BaseNonlinearFun.__init__)
    env = {"num_points": V("int", "N"), "dealiasing_fraction": V("f64", _f64_bits(fraction_value))}
    _straight_line(tree, env)
    calls = [n for n in ast.walk(tree) if isinstance(n, ast.Call) and _attr_chain(n.func).endswith("low_pass_filter_mask")]
    if len(calls) != 1:
        raise OutOfDate("low_pass_filter_mask call")
    kw = {k.arg: k.value for k in calls[0].keywords}
    if "cutoff" not in kw:
        raise OutOfDate("cutoff keyword")
    cutoff = py_expr(kw["cutoff"], env)
    # low_pass_filter_mask: jnp.abs(wn_grid) <= cutoff, axis_separate
    t2 = _src_ast(ex.spectral.low_pass_filter_mask)
    cmps = [n for n in ast.walk(t2) if isinstance(n, ast.Compare) and len(n.ops) == 1 and isinstance(n.ops[0], ast.LtE) and isinstance(n.comparators[0], ast.Name) and n.comparators[0].id == "cutoff"]
    if len(cmps) != 2:
        raise OutOfDate("comparison against cutoff in low_pass_filter_mask")
    if not any(isinstance(c.left, ast.Call) and _attr_chain(c.left.func) == "jnp.abs" for c in cmps):
        raise OutOfDate("abs(wavenumber) <= cutoff")
    wtree = _src_ast(ex.spectral.build_wavenumbers)
    wexpr = _find_assign(wtree, "right_most_wavenumbers")
    out = []
    for dtype in ("f32", "f64"):
        w, doc = wavenumber_element(wexpr, env, "j", dtype, False, _locals(wtree))
        c_t = _tof64(cutoff) if dtype == "f64" else f"({TOFP['f32']} RNE {_tof64(cutoff)})"
        dec = f"(fp.leq (fp.abs {w}) {c_t})"
        half = f"(bvudiv N {bv(2)})"
        exact = f"(bvule (bvmul {bv(den)} (bvadd j {bv(1)})) (bvmul {bv(num)} {half}))"
        rng = f"(assert (bvule j {half}))\n"
        out.append((f"cutoff-decision/{num}_{den}/{dtype}", header(rng) + f"(assert (not (= {dec} {exact})))\n(check-sat)\n(get-value (N j))\n", {"dtype": dtype, "fraction": f"{num}/{den}"}))
    half = f"(bvudiv N {bv(2)})"
    exact = f"(bvule (bvmul {bv(den)} (bvadd j {bv(1)})) (bvmul {bv(num)} {half}))"
    out.append((f"alias-free-band/{num}_{den}/degree{power}", header(f"(assert (bvule j {half}))\n") + f"(assert {exact})\n(assert (not (bvult (bvmul {bv(power + 1)} j) N)))\n(check-sat)\n(get-value (N j))\n",
                {"fraction": f"{num}/{den}", "degree": power}))
    return out


# ---------------------------------------------------------------------------
# running an SMT-LIB text on a binary / wheel solver
# ---------------------------------------------------------------------------


def run_text(text, timeout_s=300, solver="cvc5"):
    """returns (status, values dict, seconds, raw)"""
    import re
    import subprocess
    import tempfile
    import time

    t0 = time.time()
    with tempfile.NamedTemporaryFile("w", suffix=".smt2", delete=False) as f:
        f.write(text)
        path = f.name
    try:
        if solver == "z3":
            cmd = ["z3-new", f"-T:{int(timeout_s)}", path]
        elif solver == "z3old":
            cmd = ["/usr/bin/z3", f"-T:{int(timeout_s)}", path]
        else:
            cmd = ["cvc5", f"--tlimit={int(timeout_s * 1000)}", "--produce-models", path]
        try:
            p = subprocess.run(cmd, capture_output=True, text=True, timeout=timeout_s + 30)
            raw = p.stdout + p.stderr
        except subprocess.TimeoutExpired:
            raw = "timeout"
    finally:
        import os

        os.unlink(path)
    first = raw.strip().splitlines()[0].strip() if raw.strip() else "unknown"
    status = first if first in ("sat", "unsat") else "unknown"
    errs = [l for l in raw.splitlines() if "(error" in l and "model is not available" not in l and "Cannot get value" not in l]
    if errs and status == "unsat":
        status = "unknown"  # an error line (other than get-value after unsat) makes the answer inconclusive
    vals = {}
    if status == "sat":
        for m in re.finditer(r"\((\w+) #x([0-9a-fA-F]+)\)", raw):
            vals[m.group(1)] = int(m.group(2), 16)
        for m in re.finditer(r"\((\w+) \(_ bv(\d+) \d+\)\)", raw):
            vals[m.group(1)] = int(m.group(2))
        for m in re.finditer(r"\((\w+) #b([01]+)\)", raw):
            vals[m.group(1)] = int(m.group(2), 2)
    return status, vals, time.time() - t0, raw[:400]


def solve_all(items, timeout_s=300, workers=8, solver="cvc5"):
    from concurrent.futures import ThreadPoolExecutor

    with ThreadPoolExecutor(max_workers=workers) as tp:
        return list(tp.map(lambda it: run_text(it[1], timeout_s, solver), items))


# ---------------------------------------------------------------------------
# obligations for the checks
# ---------------------------------------------------------------------------


def _validate_models(ck, ex):
    """translator validation: the real functions over a sweep of N agree with
    the modelled semantics evaluated in numpy (both dtypes of this session)"""
    import jax.numpy as jnp

    for N in list(range(1, 70)) + [96, 97, 98, 127, 128, 255, 256, 1000, 1023, 1024, 4095, 4096]:
        wn = np.asarray(ex.spectral.build_wavenumbers(1, N))[0]
        dt = wn.dtype.type
        tree = _src_ast(ex.spectral.build_wavenumbers)
        expr = _find_assign(tree, "right_most_wavenumbers")
        k = np.arange(N // 2 + 1)
        if isinstance(expr, ast.Call) and _attr_chain(expr.func) == "jnp.fft.rfftfreq":
            model = k.astype(dt) / dt((1 / N) * N)
        else:
            model = k.astype(dt)
        if not np.array_equal(model, wn):
            raise RuntimeError(f"E2 model of the wavenumber kernel disagrees with the real function at N={N}")
    ck.validated += 1


def wavenumber_obligations(ck, pid_family="wavenumber-layout (all N)"):
    import exponax as ex

    _validate_models(ck, ex)
    items = wavenumber_queries(ex)
    res = solve_all(items, timeout_s=600 if ck.tier == "thorough" else 300)
    for (name, txt, meta), (st, vals, t, raw) in zip(items, res):
        ck.add_direct(f"E2/{name}", st, family=pid_family, detail=f"{meta} -> {st} {vals} ({t:.1f}s, cvc5 {raw[:60] if st=='unknown' else ''})", t=t, replay=_wn_replay(ex, meta, vals), meta=meta)
        ck.obls[-1].text = txt
        ck.obls[-1].goal_text = txt


def _wn_replay(ex, meta, vals):
    def replay(model):
        import subprocess
        import sys

        N = vals.get("N")
        j = vals.get("j")
        if N is None:
            return {"reproduced": False, "detail": "no model values"}
        code = (
            "import jax\n" + ("jax.config.update('jax_enable_x64', True)\n" if meta["dtype"] == "f64" else "") +
            f"import exponax as ex, numpy as np\nw=np.asarray(ex.spectral.build_wavenumbers(2,{N}))\n"
            f"full=w[0][:,0]; half=w[1][0,:]\nN={N}\n"
            "doc_full=(np.arange(N)+N//2)%N-N//2; doc_half=np.arange(N//2+1)\n"
            "print(int(np.sum(full!=doc_full)+np.sum(half!=doc_half)), w.dtype)\n"
        )
        p = subprocess.run([sys.executable, "-c", code], capture_output=True, text=True)
        try:
            nbad = int(p.stdout.split()[0])
        except Exception:
            return {"reproduced": False, "detail": "replay process failed: " + p.stderr[-300:]}
        return {"reproduced": nbad > 0, "detail": f"build_wavenumbers(2,{N}) in a {'x64' if meta['dtype']=='f64' else 'default float32'} session has {nbad} entries that differ from the documented integer layout (solver witness N={N}, j={j})", "N": N, "j": j}

    return replay


def cutoff_obligations(ck):
    import exponax as ex

    items = []
    for frac, num, den, power in ((2 / 3, 2, 3, 2), (1 / 2, 1, 2, 3)):
        items += cutoff_queries(ex, frac, num, den, power)
    res = solve_all(items, timeout_s=600 if ck.tier == "thorough" else 300)
    for (name, txt, meta), (st, vals, t, raw) in zip(items, res):
        ck.add_direct(f"E2/{name}", st, family="dealiasing cut-off (all N<=4096)", detail=f"{meta} -> {st} {vals} ({t:.1f}s)", t=t, replay=_cut_replay(ex, meta, vals), meta=meta)
        ck.obls[-1].text = txt
        ck.obls[-1].goal_text = txt


def _cut_replay(ex, meta, vals):
    def replay(model):
        import subprocess
        import sys
        from fractions import Fraction

        N, j = vals.get("N"), vals.get("j")
        if N is None:
            return {"reproduced": False, "detail": "no model values"}
        num, den = map(int, meta["fraction"].split("/"))
        if "dtype" not in meta:
            return {"reproduced": True, "detail": f"retained band of fraction {meta['fraction']} is not alias-free at N={N}, k={j}"}
        code = (
            "import jax\n" + ("jax.config.update('jax_enable_x64', True)\n" if meta["dtype"] == "f64" else "") +
            f"import exponax as ex, numpy as np\nnf=ex.nonlin_fun.ZeroNonlinearFun.__mro__[1]\n"
            f"class T(ex.nonlin_fun.BaseNonlinearFun):\n    def __call__(self,u): return u\n"
            f"m=np.asarray(T(1,{N},dealiasing_fraction={num}/{den}).dealiasing_mask)[0]\n"
            f"doc=np.array([{den}*(k+1)<={num}*({N}//2) for k in range({N}//2+1)])\n"
            "print(int(np.sum(m!=doc)))\n"
        )
        p = subprocess.run([sys.executable, "-c", code], capture_output=True, text=True)
        try:
            nbad = int(p.stdout.split()[0])
        except Exception:
            return {"reproduced": False, "detail": "replay process failed: " + p.stderr[-300:]}
        return {"reproduced": nbad > 0, "detail": f"dealiasing mask for N={N}, fraction {meta['fraction']} ({meta['dtype']} session) differs from the documented band k+1 <= fraction*(N//2) in {nbad} entries (solver witness k={j})"}

    return replay
