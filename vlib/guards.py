"""E3: CrossHair symbolic execution of the real guard code.

Helpers used by the generated harness modules (they are imported inside the
CrossHair process) and the runner that generates a module, calls
``python -m crosshair check`` and parses the verdicts.

* ``blank(fn)``            : the real function re-compiled from its current
  source with every f-string replaced by "" (formatting symbolic ints makes
  CrossHair fork per value); optionally truncated right after its last
  top-level guard (an ``if`` whose body is a single ``raise``) so that a path
  ends after the check it exercises; module globals can be stubbed.
* ``run(harness_source)``  : writes the module, runs CrossHair, returns
  {function: (status, message)} with status in unsat (Confirmed over all
  paths) | sat (counterexample) | unknown.
"""
from __future__ import annotations

import ast
import inspect
import os
import re
import subprocess
import sys
import tempfile
import textwrap
import time


class _NoFmt(ast.NodeTransformer):
    def visit_JoinedStr(self, node):
        return ast.copy_location(ast.Constant(""), node)


def _is_guard(stmt):
    if isinstance(stmt, ast.If) and len(stmt.body) == 1 and isinstance(stmt.body[0], ast.Raise):
        return True
    # a guard delegated to a validation helper: a bare call `validate_...(...)` / `_check_...(...)`
    if isinstance(stmt, ast.Expr) and isinstance(stmt.value, ast.Call):
        f = stmt.value.func
        name = f.id if isinstance(f, ast.Name) else (f.attr if isinstance(f, ast.Attribute) else "")
        return name.lstrip("_").startswith(("validate", "check"))
    return False


def guard_info(fn):
    """(number of top-level guards, statements before the last guard that are not simple)"""
    src = textwrap.dedent(inspect.getsource(fn))
    fdef = ast.parse(src).body[0]
    idx = [i for i, s in enumerate(fdef.body) if _is_guard(s)]
    return idx, fdef


def blank(fn, truncate=False, stubs=None, keep_guards=None):
    src = textwrap.dedent(inspect.getsource(fn))
    tree = ast.parse(src)
    tree = _NoFmt().visit(tree)
    fdef = tree.body[0]
    fdef.decorator_list = []
    if truncate:
        idx = [i for i, s in enumerate(fdef.body) if _is_guard(s)]
        if not idx:
            raise RuntimeError(f"no top-level guard in {fn.__qualname__}: encoding out of date")
        last = idx[-1] if keep_guards is None else idx[min(keep_guards, len(idx)) - 1]
        fdef.body = fdef.body[: last + 1] + [ast.Return(ast.Constant(None))]
    ast.fix_missing_locations(tree)
    ns = dict(vars(inspect.getmodule(fn)))
    if stubs:
        ns.update(stubs)
    exec(compile(tree, inspect.getsourcefile(fn) or "<guard>", "exec"), ns)
    return ns[fdef.name]


class Arr:
    """stand-in for an array: only .shape / .ndim are read by the guards"""

    def __init__(self, shape):
        self.shape = tuple(shape)
        self.ndim = len(self.shape)


_VERDICT = re.compile(r"^(?P<file>[^:]+):(?P<line>\d+): (?P<kind>info|error): (?P<msg>.*)$")


def sanitize(harness_source):
    """a harness block whose `blank(...)` cannot be built for the current source (the guard is no longer where this
    encoder looks for it) is dropped together with the conditions that use it; those conditions are reported as
    unknown.  Without this one out-of-date block makes the whole module unimportable and every guard undecided."""
    tree = ast.parse(harness_source)
    ns, bad, keep = {}, {}, []
    skipped = {}
    for node in tree.body:
        seg = ast.get_source_segment(harness_source, node)
        if isinstance(node, ast.FunctionDef) and node.name.startswith("g_"):
            used = {n.id for n in ast.walk(node) if isinstance(n, ast.Name)}
            hit = [b for b in bad if b in used]
            if hit:
                skipped[node.name] = f"harness block out of date: {bad[hit[0]]}"
                continue
            keep.append(seg)
            continue
        is_blank = isinstance(node, ast.Assign) and isinstance(node.value, ast.Call) and isinstance(node.value.func, ast.Name) and node.value.func.id == "blank"
        try:
            exec(compile(ast.Module([node], []), "<guard_harness>", "exec"), ns)
            keep.append(seg)
        except Exception as ex:
            if not is_blank:
                raise
            for t in node.targets:
                if isinstance(t, ast.Name):
                    bad[t.id] = f"{type(ex).__name__}: {ex}"
    return "\n\n".join(keep) + "\n", skipped


def run(harness_source, per_condition_timeout=20, extra_path=()):
    """returns ({function name: (status, message)}, seconds)"""
    t0 = time.time()
    harness_source, skipped = sanitize(harness_source)
    here = os.path.dirname(os.path.dirname(os.path.abspath(__file__)))
    with tempfile.TemporaryDirectory(prefix="guards_") as d:
        path = os.path.join(d, "guard_harness.py")
        with open(path, "w") as f:
            f.write(harness_source)
        env = dict(os.environ)
        env["PYTHONPATH"] = os.pathsep.join([here, *extra_path, env.get("PYTHONPATH", "")])
        env["JAX_PLATFORMS"] = "cpu"
        cmd = [sys.executable, "-m", "crosshair", "check", "--report_all", "--per_condition_timeout", str(per_condition_timeout), path]
        p = subprocess.run(cmd, capture_output=True, text=True, env=env, timeout=3600)
        out = p.stdout + p.stderr
        # map line numbers to function names
        tree = ast.parse(harness_source)
        spans = [(n.lineno, n.end_lineno, n.name) for n in tree.body if isinstance(n, ast.FunctionDef)]
        res = {}
        for line in out.splitlines():
            m = _VERDICT.match(line.strip())
            if not m:
                continue
            ln = int(m.group("line"))
            fn = next((name for a, b, name in spans if a <= ln <= b), None)
            if fn is None:
                continue
            msg = m.group("msg")
            if "Confirmed over all paths" in msg:
                st = "unsat"
            elif m.group("kind") == "error" and ("false when calling" in msg or "when calling" in msg):
                st = "sat"
            else:
                st = "unknown"
            # several conditions per function: worst wins
            prev = res.get(fn)
            rank = {"sat": 2, "unknown": 1, "unsat": 0}
            if prev is None or rank[st] > rank[prev[0]]:
                res[fn] = (st, msg)
        if not res:
            sys.stderr.write("guards.run: CrossHair reported no verdict at all; tail of its output:\n" + out[-2500:] + "\n")
        for a, b, name in spans:
            if name.startswith("g_") and name not in res:
                res[name] = ("unknown", "no verdict reported: " + out[-300:])
        for name, why in skipped.items():
            res[name] = ("unknown", why)
    return res, time.time() - t0


def parse_call(msg):
    """arguments of the counterexample call reported by CrossHair"""
    m = re.search(r"when calling (\w+)\((.*?)\)(?: \(which|$)", msg)
    if not m:
        return None
    try:
        return m.group(1), ast.literal_eval("(" + m.group(2) + ",)") if m.group(2).strip() else ()
    except Exception:
        return m.group(1), None
