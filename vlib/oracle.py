"""Documented closed forms, written over vlib.sym scalars (so that the same code
evaluates symbolically inside obligations and concretely in replays).  Nothing
here reads exponax code: layouts and symbols come from the documentation."""
from __future__ import annotations

import itertools
from fractions import Fraction

import numpy as np

from . import sym, twiddle
from .sym import Cx, Fl, ONE, ZERO, qv


def fl(x):
    return Fl(float(x), Fraction(x))


def wn_full(i, N):
    """documented integer wavenumber of index i on a full (non-halved) axis"""
    return (i + N // 2) % N - N // 2


def spectrum_shape(D, N):
    return (N,) * (D - 1) + (N // 2 + 1,)


def stored_modes(D, N):
    """yield (index tuple, integer wavenumber tuple) of the rfft layout"""
    for idx in np.ndindex(spectrum_shape(D, N)):
        yield idx, tuple(wn_full(i, N) for i in idx[:-1]) + (idx[-1],)


def stored_index(m, N):
    """index of wavenumber vector m (m_last >= 0) in the rfft layout.  On even
    grids the Nyquist wavenumber of a leading axis is stored as -N/2."""
    return tuple(mm % N for mm in m[:-1]) + (m[-1],)


def is_nyquist(m, N):
    return N % 2 == 0 and any(abs(mm) == N // 2 for mm in m)


def two_pi_over(L):
    return sym.rdiv(sym.rmul(fl(2), Fl(3.141592653589793, sym.PI())), L)


def ik_pow(W, m, j):
    """(i * W * m)^j as Cx for integer m, integer j>=0; W = 2 pi / L"""
    if j == 0:
        return Cx(ONE, ZERO)
    k = sym.rmul(fl(m), W)
    p = sym.rpow_int(k, j)
    r = j % 4
    if r == 0:
        return Cx(p, ZERO)
    if r == 1:
        return Cx(ZERO, p)
    if r == 2:
        return Cx(sym.rneg(p), ZERO)
    return Cx(ZERO, sym.rneg(p))


def csum(terms):
    terms = list(terms)
    if not terms:
        return Cx(ZERO, ZERO)
    return sym.csum([sym.asc(t) for t in terms])


def cmul(*xs):
    acc = sym.asc(xs[0])
    for x in xs[1:]:
        acc = sym.cmul(acc, sym.asc(x))
    return acc


def cscale(c, s):
    return sym.cscale(sym.asc(c), s)


# ---------------------------------------------------------------------------
# documented linear symbols  Lambda(m)  (W = 2 pi / L)
# ---------------------------------------------------------------------------


def sym_advection(m, W, c):
    # u_t + c . grad u = 0
    return csum(cscale(ik_pow(W, m[d], 1), sym.rneg(c[d])) for d in range(len(m)))


def sym_diffusion(m, W, A):
    # u_t = div(A grad u)
    D = len(m)
    return csum(cscale(cmul(ik_pow(W, m[i], 1), ik_pow(W, m[j], 1)), A[i][j]) for i in range(D) for j in range(D))


def sym_dispersion(m, W, c, mixing):
    D = len(m)
    if not mixing:
        return csum(cscale(ik_pow(W, m[d], 3), c[d]) for d in range(D))
    lap = csum(ik_pow(W, m[d], 2) for d in range(D))
    adv = csum(cscale(ik_pow(W, m[d], 1), c[d]) for d in range(D))
    return cmul(adv, lap)


def sym_hyper_diffusion(m, W, zeta, mixing):
    D = len(m)
    if not mixing:
        return cscale(csum(ik_pow(W, m[d], 4) for d in range(D)), sym.rneg(zeta))
    lap = csum(ik_pow(W, m[d], 2) for d in range(D))
    return cscale(cmul(lap, lap), sym.rneg(zeta))


def sym_general(m, W, coeffs):
    D = len(m)
    return csum(cscale(csum(ik_pow(W, m[d], j) for d in range(D)), a) for j, a in enumerate(coeffs))


# ---------------------------------------------------------------------------
# explicit DFTs written independently of the interpreter's fft rule
# ---------------------------------------------------------------------------


def phase(mdotx_num, N, sign=+1):
    """exp(sign * 2 pi i * num / N) as Cx of Fl"""
    c, s = twiddle.cs(mdotx_num % N, N)
    return Cx(c, s if sign > 0 else sym.rneg(s))


def fourier_coeff(u, m, N):
    """sum_x u[x] exp(-2 pi i m.x / N) for a real/complex object array u of
    shape (N,)*D and integer wavenumber vector m (unnormalised)."""
    D = u.ndim
    terms = []
    for x in np.ndindex(u.shape):
        # per-axis phases multiply; combine exactly via per-axis twiddles
        ph = Cx(ONE, ZERO)
        for d in range(D):
            ph = sym.cmul(ph, phase(m[d] * x[d], N, -1))
        terms.append(sym.cmul(sym.asc(u[x]), ph))
    return csum(terms)


def synth(coeffs, x, N):
    """sum_m coeffs[m] exp(+2 pi i m.x / N); coeffs: dict m -> Cx"""
    terms = []
    for m, c in coeffs.items():
        ph = Cx(ONE, ZERO)
        for d in range(len(m)):
            ph = sym.cmul(ph, phase(m[d] * x[d], N, +1))
        terms.append(sym.cmul(sym.asc(c), ph))
    return csum(terms)


def all_modes(D, N, below_nyquist=False, band=None):
    """all integer wavenumber vectors of the N^D grid (each axis in the
    documented full-axis range)."""
    rng = [wn_full(i, N) for i in range(N)]
    for m in itertools.product(rng, repeat=D):
        if below_nyquist and is_nyquist(m, N):
            continue
        if band is not None and max(abs(x) for x in m) > band:
            continue
        yield m


def half_lookup(arr, m, N):
    """value at integer wavenumber vector m of the Hermitian completion of a
    stored half spectrum arr (leading channel axes already indexed away)."""
    if m[-1] >= 0:
        return sym.asc(arr[stored_index(m, N)])
    mm = tuple(-x for x in m)
    return sym.cconj(sym.asc(arr[stored_index(mm, N)]))


# ---------------------------------------------------------------------------
# band-limited trigonometric polynomials as dicts  m -> Cx  (exact convolution
# algebra over integer wavenumbers: no FFT, no aliasing can occur here)
# ---------------------------------------------------------------------------


def retained_band(N, fraction):
    """largest integer K with K <= fraction*(N//2) - 1 (documented dealiasing
    rule), computed in exact rationals; -1 if nothing is retained"""
    import math

    lim = Fraction(fraction) * (N // 2) - 1
    return math.floor(lim)


def band_of(uh, N, K):
    """Fourier coefficients c_m = uh(m)/N^D of the band-truncated state, for all
    |m|_inf <= K (two-sided, Hermitian completion of the stored half)."""
    D = uh.ndim
    inv = Fl(1.0 / N**D, Fraction(1, N**D))
    out = {}
    rng = range(-K, K + 1)
    for m in itertools.product(rng, repeat=D):
        out[m] = sym.cscale(half_lookup(uh, m, N), inv)
    return out


def b_add(*bs):
    out = {}
    for b in bs:
        for m, v in b.items():
            out[m] = sym.cadd(out[m], v) if m in out else v
    return out


def b_scale(b, s):
    return {m: (sym.cscale(v, s) if not isinstance(s, Cx) else sym.cmul(v, s)) for m, v in b.items()}


def b_mul(a, b):
    """product of two trigonometric polynomials (full convolution)"""
    acc = {}
    for p, x in a.items():
        for q, y in b.items():
            k = tuple(i + j for i, j in zip(p, q))
            acc.setdefault(k, []).append(sym.cmul(x, y))
    return {k: csum(v) for k, v in acc.items()}


def b_deriv(b, d, W, order=1):
    return {m: sym.cmul(v, ik_pow(W, m[d], order)) for m, v in b.items()}


def b_const(D, value):
    return {(0,) * D: sym.asc(value)}


def b_laplace_inv(b, W):
    out = {}
    for m, v in b.items():
        k2 = sum(x * x for x in m)
        if k2 == 0:
            out[m] = Cx(ZERO, ZERO)
        else:
            # 1 / (-(W^2) k2)
            den = sym.rneg(sym.rmul(sym.rmul(W, W), fl(k2)))
            out[m] = Cx(sym.rdiv(v.re, den), sym.rdiv(v.im, den))
    return out


def b_laplace(b, W):
    D = len(next(iter(b)))
    return b_add(*[b_deriv(b, d, W, 2) for d in range(D)])


def b_to_stored(b, D, N, K):
    """stored half spectrum (N^D normalisation) of the polynomial b truncated to
    |k|_inf <= K"""
    out = np.empty(spectrum_shape(D, N), dtype=object)
    scale = fl(N**D)
    for idx, m in stored_modes(D, N):
        if max(abs(x) for x in m) <= K and m in b:
            out[idx] = sym.cscale(b[m], scale)
        else:
            out[idx] = Cx(ZERO, ZERO)
    return out
