"""Obligations, discharge loop, replay, known findings, evidence, exit codes.

Exit codes: 0 = every obligation explored was discharged (or is a listed
known finding); 1 = at least one replayed violation (VIOLATION line printed);
3 = harness error (model does not replay, vacuous twin, translator validation
mismatch, encoding out of date) -- never a VIOLATION.
"""
from __future__ import annotations

import fnmatch
import hashlib
import inspect
import json
import os
import re
import sys
import time
import traceback
from fractions import Fraction

import numpy as np
import z3

from . import sym
from .farm import Farm
from .sym import CTX

ROOT = os.path.dirname(os.path.dirname(os.path.abspath(__file__)))
EXIT_OK, EXIT_VIOLATION, EXIT_HARNESS = 0, 1, 3


def log(*a):
    print(*a, flush=True)


# --------------------------------------------------------------------------
# axioms relevance
# --------------------------------------------------------------------------

_DECL_RE = re.compile(r"\(declare-fun \|?([^\s|]+)\|? \(\) Real\)")


def _names_of(t):
    out, seen, stack = set(), set(), [t]
    while stack:
        c = stack.pop()
        i = c.get_id()
        if i in seen:
            continue
        seen.add(i)
        if c.num_args() == 0 and c.decl().kind() == z3.Z3_OP_UNINTERPRETED:
            out.add(c.decl().name())
        stack.extend(c.children())
    return out


_axiom_names_cache = {}


def relevant_axioms(names):
    names = set(names)
    chosen = []
    pool = []
    for ax in CTX.axioms:
        k = ax.get_id()
        if k not in _axiom_names_cache:
            _axiom_names_cache[k] = _names_of(ax)
        pool.append((ax, _axiom_names_cache[k]))
    changed = True
    used = set()
    while changed:
        changed = False
        for i, (ax, ns) in enumerate(pool):
            if i in used:
                continue
            if ns & names:
                used.add(i)
                chosen.append(ax)
                if not ns <= names:
                    names |= ns
                    changed = True
    return chosen


# --------------------------------------------------------------------------
# known findings
# --------------------------------------------------------------------------


def load_findings(pid):
    path = os.path.join(ROOT, "known_findings.txt")
    out = []
    if not os.path.exists(path):
        return out
    for line in open(path):
        line = line.strip()
        if not line.startswith("finding:"):
            continue
        m = re.match(r"finding:\s+property=(\S+)\s+key=(\S+)\s*(.*)", line)
        if m and m.group(1) == pid:
            out.append((m.group(2), m.group(3)))
    return out


# --------------------------------------------------------------------------
# obligations
# --------------------------------------------------------------------------


DEFAULT_REPLAY = None  # set by vlib.eqinst: generic replay through the encodings the goal mentions


def _drop_jit_caches():
    """replays build steppers eagerly; every lax.scan / jit of a fresh closure compiles a new executable that JAX keeps
    alive, and after a few thousand of them XLA's CPU JIT cannot place code sections any more (ENOMEM, then SIGSEGV)"""
    try:
        import jax

        jax.clear_caches()
    except Exception:
        pass


class Obligation:
    __slots__ = ("name", "family", "goal", "assumptions", "replay", "expect", "timeout", "stretch", "meta", "text", "goal_text", "result", "kind")

    def __init__(self, name, goal, assumptions=(), family="", replay=None, expect="unsat", timeout=None, stretch=False, meta=None, kind="solver"):
        self.name = name
        self.family = family or name.split("/")[0]
        self.goal = goal
        self.assumptions = list(assumptions)
        self.replay = replay
        self.expect = expect
        self.timeout = timeout
        self.stretch = stretch
        self.meta = meta or {}
        self.text = None
        self.goal_text = None
        self.result = None
        self.kind = kind


class HarnessError(Exception):
    pass


class Check:
    def __init__(self, pid, tier="quick", seed=0, default_timeout=60, level="model_checking"):
        self.pid = pid
        self.tier = tier
        self.seed = seed
        self.level = level
        self.default_timeout = default_timeout
        self.obls = []
        self.functions = {}
        self.bounds = []
        self.assumptions_txt = []
        self.outside = []
        self.notes = []
        self.errors = []
        self.validated = 0
        self.t0 = time.time()
        self.extra = {}
        self.replay_only = None  # (obligation name, model)
        self.direct = []  # results decided outside the farm (CrossHair, binaries)

    # ----- bookkeeping -----
    def encode_fn(self, *objs):
        """record the real functions whose code is encoded (name + source hash)"""
        for o in objs:
            try:
                src = inspect.getsource(o)
                nm = getattr(o, "__module__", "") + "." + getattr(o, "__qualname__", repr(o))
                self.functions[nm] = hashlib.sha1(src.encode()).hexdigest()[:12]
            except (TypeError, OSError):
                self.functions[repr(o)] = "nosource"

    def bound(self, txt):
        if txt not in self.bounds:
            self.bounds.append(txt)

    def assume(self, txt):
        if txt not in self.assumptions_txt:
            self.assumptions_txt.append(txt)

    def out_of_scope(self, txt):
        if txt not in self.outside:
            self.outside.append(txt)

    def add(self, name, goal, assumptions=(), **kw):
        if self.tier != "thorough" and kw.get("stretch"):
            return None
        o = Obligation(name, goal, assumptions, **kw)
        self.obls.append(o)
        return o

    def add_direct(self, name, status, family="", detail="", expect="unsat", replay=None, t=0.0, meta=None):
        """an obligation decided by another solver front end (CrossHair, z3/cvc5
        binary on SMT-LIB text): status in unsat|sat|unknown"""
        o = Obligation(name, None, (), family=family, expect=expect, replay=replay, meta=meta or {}, kind="direct")
        o.result = {"status": status, "trivial": False, "t": t, "detail": detail}
        self.obls.append(o)
        return o

    def error(self, msg):
        self.errors.append(msg)
        log("HARNESS-ERROR:", msg)

    # ----- serialisation -----
    def _serialise(self, o):
        goal = o.goal
        if isinstance(goal, (bool, np.bool_)):
            o.result = {"status": "unsat" if goal else "sat", "trivial": True, "t": 0.0, "model": {}}
            return
        s = z3.Solver()
        n_as = 0
        for a in o.assumptions:
            if isinstance(a, (bool, np.bool_)):
                if not a:
                    o.result = {"status": "unsat", "trivial": True, "t": 0.0, "vacuous": True}
                    return
                continue
            s.add(a)
            n_as += 1
        s.add(z3.Not(goal))
        text = s.to_smt2()
        names = set(_DECL_RE.findall(text))
        declared = set(names)
        # defining facts of the Ackermannised square roots that occur (closure: a fact may mention further roots)
        defs, frontier = [], (set(names) if not os.environ.get("VERIF_NO_DEFS") else set())
        seen_defs = set()
        while frontier:
            nxt = set()
            for nm in frontier:
                ax = CTX.defs.get(nm)
                if ax is not None and nm not in seen_defs:
                    seen_defs.add(nm)
                    defs.append(ax)
                    k = ax.get_id()
                    if k not in _axiom_names_cache:
                        _axiom_names_cache[k] = _names_of(ax)
                    nxt |= _axiom_names_cache[k] - names
            names |= nxt
            frontier = nxt
        axs = defs + relevant_axioms(names)
        if axs:
            # append the relevant constant axioms textually (one serialisation of the big terms only)
            extra_names = set()
            for ax in axs:
                extra_names |= _axiom_names_cache[ax.get_id()]
            decls = "".join(f"(declare-fun {n} () Real)\n" for n in sorted(extra_names - declared))
            body = "".join(f"(assert {ax.sexpr()})\n" for ax in axs)
            cut = text.rfind("(check-sat)")
            text = text[:cut] + decls + body + "(check-sat)\n"
        o.text = text
        o.goal_text = None
        o.meta["_goal_index"] = len(s.assertions()) - 1

    # ----- main loop -----
    def run(self):
        try:
            return self._run()
        except HarnessError as ex:
            self.error(str(ex))
            self._evidence([], 0, 0.0)
            return EXIT_HARNESS

    def _run(self):
        t_enc0 = time.time()
        todo = []
        for o in self.obls:
            if o.result is not None:
                continue
            self._serialise(o)
            if o.result is None:
                todo.append(o)
        log(f"[{self.pid}] {len(self.obls)} obligations ({len(todo)} to solver), serialise {time.time()-t_enc0:.1f}s")
        farm = Farm()
        t_s0 = time.time()
        queries = [
            {"id": i, "text": o.text, "goal_index": o.meta.get("_goal_index"), "timeout_s": o.timeout or self.default_timeout, "tactic": o.meta.get("tactic"), "expect": o.expect}
            for i, o in enumerate(todo)
        ]
        res = farm.run(queries, max_sat=int(os.environ.get("VERIF_MAX_SAT", "40"))) if queries else {}
        farm.close()
        solver_wall = time.time() - t_s0
        for i, o in enumerate(todo):
            o.result = res[i]
        if self.tier == "thorough" or os.environ.get("VERIF_CROSSCHECK"):
            self._crosscheck(todo)
        return self._conclude(solver_wall, farm.cpu)

    def _crosscheck(self, todo):
        """second-solver cross-check of a seeded sample of the non-trivial queries (cvc5 binary and z3 4.8.12):
        a verdict disagreement (sat vs unsat) is a harness error; time-outs / unknown are ignored"""
        import random
        import subprocess
        import tempfile

        cand = [o for o in todo if o.text and not o.result.get("trivial") and o.result.get("status") in ("sat", "unsat") and len(o.text) < 400000]
        rng = random.Random(self.seed + 99)
        sample = rng.sample(cand, min(len(cand), 24))
        agree = disagree = inconclusive = 0

        def one(o):
            out = {}
            with tempfile.NamedTemporaryFile("w", suffix=".smt2", delete=False) as f:
                f.write(o.text)
                path = f.name
            try:
                for name, cmd in (("cvc5", ["cvc5", "--tlimit=20000", path]), ("z3-4.8", ["/usr/bin/z3", "-T:20", path])):
                    try:
                        p = subprocess.run(cmd, capture_output=True, text=True, timeout=40)
                        first = (p.stdout.strip().splitlines() or ["unknown"])[0].strip()
                        if "(error" in p.stdout + p.stderr:
                            first = "unknown"
                    except subprocess.TimeoutExpired:
                        first = "unknown"
                    out[name] = first if first in ("sat", "unsat") else "unknown"
            finally:
                os.unlink(path)
            return out

        from concurrent.futures import ThreadPoolExecutor

        with ThreadPoolExecutor(max_workers=8) as tp:
            results = list(tp.map(one, sample))
        for o, r in zip(sample, results):
            for name, v in r.items():
                if v == "unknown":
                    inconclusive += 1
                elif v == o.result["status"]:
                    agree += 1
                else:
                    disagree += 1
                    self.errors.append(f"solver disagreement on {o.name}: z3-5.1 says {o.result['status']}, {name} says {v}")
        self.extra["crosscheck"] = {"sampled_queries": len(sample), "second_solver_agreements": agree, "disagreements": disagree, "inconclusive": inconclusive, "solvers": ["cvc5 1.0.3 (binary)", "z3 4.8.12 (binary)"]}

    def _conclude(self, solver_wall, solver_cpu):
        findings = load_findings(self.pid)
        violations, known, inconclusive, harness_err = [], [], [], list(self.errors)
        discharged = trivial = twins_ok = 0
        for o in self.obls:
            st = o.result["status"]
            if o.expect == "sat":  # reachability twin
                if st == "sat":
                    twins_ok += 1
                    if o.replay is not None:
                        try:
                            rr = o.replay(_model(o.result))
                            if not rr.get("reproduced"):
                                harness_err.append(f"twin {o.name}: model does not replay: {rr.get('detail')}")
                        except Exception as ex:
                            harness_err.append(f"twin {o.name}: replay raised {ex!r}")
                elif st == "unsat":
                    harness_err.append(f"vacuous: twin {o.name} is unsat")
                else:
                    inconclusive.append(o)
                continue
            if st == "unsat":
                if o.result.get("vacuous"):
                    harness_err.append(f"vacuous assumptions in {o.name}")
                discharged += 1
                trivial += bool(o.result.get("trivial"))
                continue
            if st == "sat":
                rr = {"reproduced": False, "detail": "no replay function"}
                specific = o.replay if os.environ.get("VERIF_REPLAY") != "generic" or o.kind != "solver" else None
                if specific is not None:
                    try:
                        rr = specific(_model(o.result))
                    except Exception as ex:
                        traceback.print_exc()
                        rr = {"reproduced": False, "detail": f"replay raised {ex!r}"}
                if not rr.get("reproduced") and DEFAULT_REPLAY is not None and o.kind == "solver":
                    # generic replay through the encodings the goal mentions (also the fallback when the specific replay's point was unlucky)
                    try:
                        r2 = DEFAULT_REPLAY(o)(_model(o.result))
                    except Exception as ex:
                        traceback.print_exc()
                        r2 = {"reproduced": False, "detail": f"generic replay raised {ex!r}"}
                    if r2.get("reproduced"):
                        rr = r2
                    else:
                        rr = {"reproduced": False, "detail": f"{rr.get('detail')} | generic replay: {r2.get('detail')}"}
                _drop_jit_caches()
                if rr.get("reproduced"):
                    key = next((k for k, _ in findings if fnmatch.fnmatch(o.name, k)), None)
                    if key is not None:
                        known.append((o, key, rr))
                    else:
                        violations.append((o, rr))
                elif o.meta.get("structural"):
                    # a STRUCTURAL expectation about the traced program failed (the code is organised differently from what
                    # this part of the encoder looks for) while the semantic replay on the real code agrees with the
                    # documentation: this part is not decided for this tree -- inconclusive, neither a pass nor an alarm
                    o.result = dict(o.result, status="unknown", reason=f"structure differs from the encoder's expectation; semantic replay agrees ({str(rr.get('detail'))[:200]})")
                    inconclusive.append(o)
                else:
                    harness_err.append(f"{o.name}: sat but model does not replay ({rr.get('detail')})")
                continue
            # the solver gave no verdict (time-out / unknown).  Falsification probe: the generic replay (real code run at
            # fixed stress points, encoding validated there, relation robustly false) may still exhibit a violation; it can
            # never turn an inconclusive obligation into a pass
            if o.kind == "solver" and DEFAULT_REPLAY is not None and st in ("timeout", "unknown") and os.environ.get("VERIF_PROBE", "1") != "0":
                try:
                    r2 = DEFAULT_REPLAY(o)({})
                except Exception as ex:
                    r2 = {"reproduced": False, "detail": f"probe raised {ex!r}"}
                _drop_jit_caches()
                if r2.get("reproduced"):
                    r2["detail"] = "solver inconclusive (" + str(o.result.get("reason", st)) + "); found by the replay probe: " + str(r2.get("detail"))
                    o.result["probe"] = "violation"
                    key = next((k for k, _ in findings if fnmatch.fnmatch(o.name, k)), None)
                    if key is not None:
                        known.append((o, key, r2))
                    else:
                        violations.append((o, r2))
                    continue
            inconclusive.append(o)

        code = EXIT_OK
        printed = set()
        for o, key, rr in known:
            if key not in printed:
                printed.add(key)
                txt = next(t for k, t in findings if k == key)
                log(f"KNOWN-FINDING: property={self.pid} key={key} {txt} (e.g. {o.name}: {rr.get('detail','')[:200]})")
        for o, rr in violations:
            path = self._write_replay(o, rr)
            log(f"VIOLATION property={self.pid} replay={path}")
            log(f"  obligation {o.name}: {rr.get('detail','')[:400]}")
            code = EXIT_VIOLATION
        for m in harness_err:
            log("HARNESS-ERROR:", m)
        if harness_err and code == EXIT_OK:
            code = EXIT_HARNESS
        for o in inconclusive:
            log(f"INCONCLUSIVE: {o.name}: {o.result.get('status')} {o.result.get('reason','') or o.result.get('detail','')}")
        self._evidence(
            self.obls,
            len(violations),
            solver_wall,
            dict(discharged=discharged, trivial=trivial, twins_ok=twins_ok, known=len(known), inconclusive=[o.name for o in inconclusive], harness_errors=harness_err, solver_cpu=solver_cpu),
        )
        log(
            f"[{self.pid}] tier={self.tier} obligations={len(self.obls)} discharged={discharged} (trivial {trivial}) twins_sat={twins_ok} "
            f"known={len(known)} violations={len(violations)} inconclusive={len(inconclusive)} harness_errors={len(harness_err)} "
            f"solver_wall={solver_wall:.1f}s cpu={solver_cpu:.1f}s total={time.time()-self.t0:.1f}s exit={code}"
        )
        return code

    # ----- files -----
    def _write_replay(self, o, rr):
        d = os.path.join(ROOT, "replays", self.pid)
        os.makedirs(d, exist_ok=True)
        payload = {"property": self.pid, "obligation": o.name, "meta": o.meta, "model": o.result.get("model", {}), "replay": _jsonable(rr), "rerun": f"./check {self.pid} --replay <this file>"}
        h = hashlib.sha1(json.dumps([o.name, payload["model"]], sort_keys=True).encode()).hexdigest()[:12]
        path = os.path.join(d, f"{h}.json")
        with open(path, "w") as f:
            json.dump(payload, f, indent=1, default=str)
        return path

    def _evidence(self, obls, nviol, solver_wall, stats=None):
        stats = stats or {}
        texts = set()
        nontriv = 0
        for o in obls:
            if o.result and not o.result.get("trivial") and o.expect == "unsat" and o.result.get("status") in ("unsat", "sat"):
                h = hashlib.sha1((o.text or o.name).encode()).hexdigest()
                if h not in texts:
                    texts.add(h)
                    nontriv += 1
        samples = []
        fam_seen = set()
        for o in obls:
            if o.family in fam_seen or o.expect != "unsat":
                continue
            fam_seen.add(o.family)
            s = {"obligation": o.name, "status": o.result.get("status") if o.result else None, "solver_s": round(o.result.get("t", 0.0), 3) if o.result else None}
            if o.text:
                gt = o.text
                s["query_smt2"] = gt if len(gt) < 1500 else gt[:700] + " ...[truncated]... " + gt[-700:]
            if o.result and o.result.get("detail"):
                s["detail"] = str(o.result["detail"])[:600]
            samples.append(s)
            if len(samples) >= 12:
                break
        families = {}
        for o in obls:
            f = families.setdefault(o.family, {"obligations": 0, "unsat": 0, "sat": 0, "other": 0, "twins": 0, "solver_s": 0.0})
            if o.expect == "sat":
                f["twins"] += 1
            else:
                f["obligations"] += 1
                st = o.result.get("status") if o.result else "none"
                f["unsat" if st == "unsat" else ("sat" if st == "sat" else "other")] += 1
            f["solver_s"] = round(f["solver_s"] + (o.result.get("t", 0.0) if o.result else 0.0), 3)
        n_obl = sum(1 for o in obls if o.expect == "unsat")
        ev = {
            "property_id": self.pid,
            "tier": self.tier,
            "seed": int(self.seed),
            "level": self.level,
            "coverage": {
                "evaluations": max(len(obls), 0),
                "distinct_nontrivial": nontriv,
                "rule": "one evaluation = one solver obligation (negated property instance over symbolic inputs, or a reachability twin); "
                "non-trivial = the negated goal does not simplify to false before the solver is called; distinct = distinct SMT-LIB text",
                "samples": samples or [{"note": "no obligations were generated"}],
                "obligations": n_obl,
                "discharged": stats.get("discharged", 0),
                "trivially_discharged": stats.get("trivial", 0),
                "reachability_twins_sat": stats.get("twins_ok", 0),
                "known_findings_hit": stats.get("known", 0),
                "inconclusive": stats.get("inconclusive", []),
                "harness_errors": stats.get("harness_errors", self.errors),
                "translator_validation_points": self.validated,
                "traces_validated_against_impl": self.validated,
                "functions_encoded": self.functions,
                "bounds": self.bounds,
                "outside_claim": self.outside,
                "families": families,
                "solver_wall_s": round(solver_wall, 2),
                "solver_cpu_s": round(stats.get("solver_cpu", 0.0), 2),
                "solver": f"z3 {z3.get_version_string()} (python API, worker pool)",
                "exhaustive": False,
                **self.extra,
            },
            "assumptions": self.assumptions_txt,
            "wall_s": round(time.time() - self.t0, 2),
            "violations": int(nviol),
        }
        evdir = os.environ.get("VERIF_EVIDENCE_DIR") or os.path.join(ROOT, "evidence")  # seeded-change runs write elsewhere (tools_seed.sh)
        os.makedirs(evdir, exist_ok=True)
        with open(os.path.join(evdir, f"{self.pid}.json"), "w") as f:
            json.dump(ev, f, indent=1, default=str)


def _model(res):
    out = {}
    for k, v in (res.get("model") or {}).items():
        if isinstance(v, list):
            out[k] = Fraction(int(v[0]), int(v[1]))
        else:
            out[k] = v
    return out


def _jsonable(x):
    if isinstance(x, dict):
        return {str(k): _jsonable(v) for k, v in x.items()}
    if isinstance(x, (list, tuple)):
        return [_jsonable(v) for v in x]
    if isinstance(x, np.ndarray):
        return _jsonable(x.tolist())
    if isinstance(x, (np.floating, np.integer)):
        return x.item()
    if isinstance(x, complex):
        return [x.real, x.imag]
    if isinstance(x, Fraction):
        return float(x)
    if isinstance(x, (str, int, float, bool)) or x is None:
        return x
    return str(x)
