"""Modular (staged-Ackermann) reasoning about one ETDRK step of any order with
an OPAQUE nonlinear term and FREE coefficient arrays.

``Step(order, shape)`` traces the real ``ETDRKp.step_fourier`` with
``_nonlinear_fun = uf["N"]`` and every coefficient leaf replaced by a free
complex array (optionally shared between channels).  A *related run* evaluates
the same program on a transformed input; at the i-th call of the opaque term it
emits the obligations  arg'_i == Phi(arg_i)  and returns  Phi(out_i)  (this is
congruence plus the lemma N o Phi = Phi o N, which is proved separately for
every concrete nonlinear function).  Lemmas that constrain results (DC
component zero, divergence zero) are added as assumptions on the out_i.
"""
from __future__ import annotations

import numpy as np
import z3

import equinox as eqx
import exponax as ex
import jax.numpy as jnp

from . import sym
from .eqinst import Encoded, In
from .jx2smt import symarray, uf
from .sym import Cx

CLS = {1: ex.etdrk.ETDRK1, 2: ex.etdrk.ETDRK2, 3: ex.etdrk.ETDRK3, 4: ex.etdrk.ETDRK4}
COEFS = {1: ["_coef_1"], 2: ["_coef_1", "_coef_2"], 3: ["_coef_1", "_coef_2", "_coef_3", "_coef_4", "_coef_5"], 4: ["_coef_1", "_coef_2", "_coef_3", "_coef_4", "_coef_5", "_coef_6"]}
HAS_HALF = {1: False, 2: False, 3: True, 4: True}


def leaf_names(order):
    return ["_exp_term"] + (["_half_exp_term"] if HAS_HALF[order] else []) + COEFS[order]


class Step:
    def __init__(self, order, shape, tag="", coef_shape=None, uh=None, coef_syms=None):
        """shape: state spectrum shape (C, ...); coef_shape: shape of the
        coefficient arrays (default: (1,)+shape[1:], i.e. the same multiplier
        for every channel)"""
        self.order = order
        self.shape = tuple(shape)
        self.names = leaf_names(order)
        cshape = tuple(coef_shape) if coef_shape is not None else (1,) + self.shape[1:]
        self.cshape = cshape
        self.ins = []
        for n in self.names:
            arr = None if coef_syms is None else coef_syms[n]
            self.ins.append(In(f"{tag}{n.strip('_')}", cshape, "complex", sym_arr=arr))
        self.ins.append(In(f"{tag}uh", self.shape, "complex", sym_arr=uh))
        names = self.names

        def f(*args):
            leaves, u = args[:-1], args[-1]
            e = CLS[order](0.1, jnp.zeros(cshape, jnp.complex128), lambda v: uf("N", v))
            for n, v in zip(names, leaves):
                e = eqx.tree_at(lambda t, n=n: getattr(t, n), e, v)
            return e.step_fourier(u)

        self.fn = f
        self.enc = Encoded(f, self.ins, tag=tag + "base")
        self.P = {n: i.sym for n, i in zip(self.names, self.ins[:-1])}
        self.uh = self.ins[-1].sym
        self.calls = self.enc.interp.uf_calls  # [(name, [arg], [out])]
        self.out = self.enc.outs[0]

    def n_outs(self):
        return [c[2][0] for c in self.calls]

    def related(self, ck, prefix, uh2, phi_arg, phi_out, family, assumptions=(), coef_syms=None, replay=None):
        """run the same step on uh2; at each opaque call require arg' == phi_arg(arg_i)
        component-wise (obligations) and return phi_out(out_i).  Returns the output array."""
        base_calls = self.calls
        state = {"i": 0}

        def hook(name, ins_, e):
            i = state["i"]
            state["i"] += 1
            want = phi_arg(base_calls[i][1][0])
            got = ins_[0]
            for c in np.ndindex(got.shape):
                ck.add(f"{prefix}/stage-arg/{i}/{'_'.join(map(str, c))}", sym.equal_goal(got[c], want[c]), list(assumptions), family=family + "/stage arguments", replay=replay)
            return [phi_out(base_calls[i][2][0])]

        ins2 = []
        for n, i in zip(self.names, self.ins[:-1]):
            arr = i.sym if coef_syms is None else coef_syms[n]
            ins2.append(In(i.name, self.cshape, "complex", sym_arr=arr))
        ins2.append(In("uh2", self.shape, "complex", sym_arr=uh2))
        enc2 = self.enc.clone_with(ins2, tag="rel", uf_hook=hook)
        return enc2.outs[0]


def amap(f, *arrs):
    return np.vectorize(f, otypes=[object])(*arrs)
