#!/bin/bash
# tools_seed_wt.sh <srcdir> <label> <check ids...>
# Like tools_seed.sh, but the checks run against a scratch worktree carrying the patch (PYTHONPATH override), so that
# several seeded changes can be examined while /repo is in use.  /repo itself is never touched.
SRC=$1; LABEL=$2; shift 2
DST=/verif/seeded/$LABEL
mkdir -p $DST
cp $SRC/patch.diff $SRC/demo.py $DST/ 2>/dev/null
[ -f $SRC/notes.txt ] && cp $SRC/notes.txt $DST/agent_notes.txt
WT=/tmp/seedwt_$LABEL; BASE=/tmp/refwt_base
git -C /repo worktree remove --force $WT 2>/dev/null
git -C /repo worktree add -q --detach $WT HEAD
[ -d $BASE ] || git -C /repo worktree add -q --detach $BASE HEAD
( cd $BASE && PYTHONPATH=$BASE JAX_PLATFORMS=cpu timeout 900 /venv/bin/python $DST/demo.py > $DST/demo_unchanged.log 2>&1 ); A=$?
( cd $WT && git apply $DST/patch.diff ) || { echo "PATCH DOES NOT APPLY $LABEL"; git -C /repo worktree remove --force $WT; exit 2; }
( cd $WT && PYTHONPATH=$WT JAX_PLATFORMS=cpu timeout 900 /venv/bin/python $DST/demo.py > $DST/demo_patched.log 2>&1 ); B=$?
RES=""
for c in "$@"; do
  ( cd /verif && PYTHONPATH=$WT VERIF_EVIDENCE_DIR=$DST/evidence_patched ./check $c --tier quick > $DST/check_$c.log 2>&1 ); e=$?
  v=$(grep -c '^VIOLATION' $DST/check_$c.log)
  RES="$RES $c:exit=$e,violations=$v"
done
git -C /repo worktree remove --force $WT
rm -rf $DST/evidence_patched
echo "SUMMARY $LABEL demo_unchanged=$A demo_patched=$B$RES (worktree run)"
