#!/bin/bash
# Build the overlay venv used by every check. Offline; idempotent.
set -e
HERE="$(cd "$(dirname "$0")" && pwd)"
VENV="$HERE/.venv"
STAMP="$VENV/.ok"
if [ -f "$STAMP" ]; then exit 0; fi
exec 9>"$HERE/.venv.lock"
flock 9
if [ -f "$STAMP" ]; then exit 0; fi
rm -rf "$VENV"
/venv/bin/python -m venv "$VENV"
SP="$("$VENV/bin/python" -c 'import sysconfig; print(sysconfig.get_paths()["purelib"])')"
printf "import site; site.addsitedir('/venv/lib/python3.12/site-packages')\n" > "$SP/_overlay.pth"
PIP_NO_INDEX=1 "$VENV/bin/python" -m pip install -q --no-index --find-links /opt/veriftools/wheels \
    z3-solver crosshair-tool mpmath cvc5 jsonschema sympy >/dev/null
"$VENV/bin/python" -c "import z3, crosshair, mpmath, cvc5, jax, equinox, sympy; print('overlay venv ok: z3', z3.get_version_string())"
touch "$STAMP"
