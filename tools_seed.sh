#!/bin/bash
# tools_seed.sh <ID> <label> <check ids...>
# Confirms a seeded change produced by a sub-agent in /tmp/mut/<ID>.out and runs our checks against it.
#   - demo.py must PASS on the unchanged tree and FAIL with the patch (scratch worktree under /tmp)
#   - the unedited test-suite must pass with the patch (run in the scratch worktree)
#   - the listed checks are run with the patch applied to /repo, which is restored afterwards
ID=$1; LABEL=$2; shift 2
SRC=${SEED_SRC:-/tmp/mut/$ID.out}   # SEED_SRC=/tmp/mut2/<ID>.out/A for round 2
DST=/verif/seeded/$LABEL
mkdir -p $DST
cp $SRC/patch.diff $SRC/demo.py $DST/ 2>/dev/null
[ -f $SRC/notes.txt ] && cp $SRC/notes.txt $DST/agent_notes.txt
WT=/tmp/seedwt_$LABEL
git -C /repo worktree remove --force $WT 2>/dev/null
git -C /repo worktree add -q $WT HEAD
cd $WT
PYTHONPATH=$WT timeout 600 /venv/bin/python $DST/demo.py > $DST/demo_unchanged.log 2>&1; A=$?
git apply $DST/patch.diff || { echo "PATCH DOES NOT APPLY"; exit 2; }
PYTHONPATH=$WT timeout 600 /venv/bin/python $DST/demo.py > $DST/demo_patched.log 2>&1; B=$?
echo "demo: unchanged exit=$A patched exit=$B"
if [ -z "$SKIP_TESTS" ]; then
( /venv/bin/python -m pytest -q -p no:cacheprovider --timeout=900 --deselect tests/test_nonlinear_funs.py::TestGradientNormAdditional::test_2d > $DST/testsuite_patched.log 2>&1; echo "testsuite exit=$?" >> $DST/testsuite_patched.log ) &
TS=$!
fi
cd /repo && git apply $DST/patch.diff || { echo "PATCH DOES NOT APPLY to /repo"; exit 2; }
RES=""
for c in "$@"; do
  cd /verif && VERIF_EVIDENCE_DIR=$DST/evidence_patched ./check $c --tier quick > $DST/check_$c.log 2>&1; e=$?
  v=$(grep -c '^VIOLATION' $DST/check_$c.log)
  RES="$RES $c:exit=$e,violations=$v"
  echo "check $c exit=$e violations=$v :: $(grep -m1 -A1 '^VIOLATION' $DST/check_$c.log | tail -1 | cut -c1-220)"
done
cd /repo && git checkout -- . && git status --short
if [ -z "$SKIP_TESTS" ]; then wait $TS; tail -2 $DST/testsuite_patched.log | tr '\n' ' '; echo; fi
git -C /repo worktree remove --force $WT
rm -rf /verif/replays/*
echo "SUMMARY $LABEL demo_unchanged=$A demo_patched=$B$RES"
